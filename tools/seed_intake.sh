#!/usr/bin/env bash
# tools/seed_intake.sh <Cxx> <variant>...   verify a sub-agent's seeds in its worktree /tmp/wt/<Cxx> (tools/seed_verify.sh)
# and copy the confirmed ones to seeded/<Cxx>-<variant>/
set -u
HERE="$(cd "$(dirname "$0")/.." && pwd)"
P="$1"; shift
for v in "$@"; do
  res="$("$HERE/tools/seed_verify.sh" "${WT_ROOT:-/tmp/wt}/$P" "$v" 2>&1 | grep '^RESULT')"
  echo "$P-$v $res"
  case "$res" in
    *"suite=pass"*"demo-with-change=FAIL demo-without-change=pass"*)
      mkdir -p "$HERE/seeded/$P-$v"
      cp "${WT_ROOT:-/tmp/wt}/$P/SEED/$v/patch.diff" "${WT_ROOT:-/tmp/wt}/$P/SEED/$v/demo.rs" "${WT_ROOT:-/tmp/wt}/$P/SEED/$v/notes.md" "$HERE/seeded/$P-$v/"
      echo "$res" > "$HERE/seeded/$P-$v/verify.txt"
      ;;
    *) echo "  NOT KEPT";;
  esac
done
