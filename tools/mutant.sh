#!/usr/bin/env bash
# tools/mutant.sh <patch.diff> [Cxx ...]
# Applies a seeded fault to /repo's working tree, runs the repository's own test-suite (a fault the
# suite catches is unrealistic), runs the quick checks (all, or the listed ones), prints one line
# per property, and restores /repo. Never commits anything.
set -u
HERE="$(cd "$(dirname "$0")/.." && pwd)"
PATCH="$(readlink -f "$1")"; shift
PROPS=("$@")
if [ ${#PROPS[@]} -eq 0 ]; then
  PROPS=(C01 C02 C03 C04 C05 C06 C07 C08 C09 C10 C11 C12 C13 C14 C15 C16 C17 C18 C19 C20)
fi
if ! git -C /repo diff --quiet; then echo "refusing: /repo has uncommitted changes" >&2; exit 2; fi
restore() { git -C /repo checkout -- . ; }
trap restore EXIT
if ! git -C /repo apply "$PATCH"; then echo "patch does not apply" >&2; exit 2; fi
if [ -z "${SKIP_SUITE:-}" ]; then
  if (cd /repo && cargo test --offline >/tmp/mutant-suite.log 2>&1); then
    echo "suite: passes ($(grep -c '\.\.\. ok' /tmp/mutant-suite.log) tests ok)"
  else
    echo "suite: FAILS (the repository's own tests catch this change)"
    grep -E "^test .* FAILED|panicked" /tmp/mutant-suite.log | head -5
  fi
  rm -f /tmp/mutant-suite.log
fi
CAUGHT=()
for p in "${PROPS[@]}"; do
  out="$("$HERE/check" "$p" quick 2>&1)"; code=$?
  keys="$(printf '%s\n' "$out" | grep -E '^  key=' | sed -E 's/^  key=([^ ]+).*/\1/' | head -4 | tr '\n' ' ')"
  echo "$p exit=$code $keys"
  [ $code -eq 1 ] && CAUGHT+=("$p")
done
echo "caught-by: ${CAUGHT[*]:-none}"
