#!/usr/bin/env python3
"""Regenerates /verif/MANIFEST.json from the table below (single source for the per-property texts)."""
import json, os

HERE = os.path.dirname(os.path.dirname(os.path.abspath(__file__)))

TRUSTED = ("Trusted base: the independent reference model in mc/src/refmodel (kept honest by setup.sh's self-tests and by "
           "being compared with the implementation on every explored case), rustc, and the harness engine. "
           "Values outside the stated alphabets/bounds are not covered.")

# id -> (technique, level text, level note, design ref)
CHECKS = {
    "C02": ("explicit-state enumeration of builder configurations (k-deviation product over walk alphabets) executed on the real code, each built plainly and with the intermediate builder queried after every call (a two-step history per call), reference-model comparison per case",
            "Every SR/RR configuration in the stated product / k-deviation spaces is built and parsed with the real code and compared field by field with the configuration; exhaustive inside the bounds.",
            TRUSTED, "3 (C02)"),
    "C03": ("explicit-state enumeration of SDES configurations (all length pairs, boundary residues x SSRC byte patterns) executed on the real code, each built plainly and with the intermediate builders queried after every call, reference-model comparison per case",
            "Every SDES configuration in the stated spaces is built, parsed and compared chunk by chunk and item by item; exhaustive inside the bounds.",
            TRUSTED, "3 (C03)"),
    "C04": ("explicit-state enumeration (complete product sources x reason length x padding; APP field product) executed on the real code, each built plainly and with the intermediate builder queried after every call, reference-model comparison per case",
            "The BYE space 32 x 256 x 64 is complete; APP covers the stated product. Each case is built, parsed and compared.",
            TRUSTED, "3 (C04)"),
    "C05": ("explicit-state enumeration (all subsets of a NACK window, all FIR add-sequences, SLI/RPSI products) executed on the real code, each built in both the owned and the borrowed FCI flavour, one of them with the intermediate builders queried after every call, reference-model comparison per case",
            "Every feedback configuration in the stated spaces is built, parsed, its FCI decoded and compared with what was put in; exhaustive inside the bounds.",
            TRUSTED, "3 (C05)"),
}

CHECKS.update({
    "C06": ("explicit-state enumeration of writer targets x buffer lengths executed on the real code; announced size compared with every write outcome; every packet-builder configuration additionally in the probed flavour (builder queried after every call)",
            "Every writer target (all builders in all API flavours, FCI/chunk/item builders alone, compound member lists, third-party writers; accepted and rejected configurations) is crossed with buffer lengths around the announced size; each write's result is compared with the announcement. Exhaustive inside the bounds.",
            TRUSTED, "3 (C06)"),
    "C07": ("explicit-state enumeration of accepted writer targets executed on the real code; byte-for-byte comparison with an independent RFC encoder (reference model); a configuration without an RFC image that is nevertheless accepted is reported (oversize excepted), and what was written is compared even when the announced size differs",
            "Every representable target's bytes (written into a 0xA5-prefilled buffer) are compared byte for byte with the independent encoder's image (FIR as a multiset of entries, NACK by decode/ordering/minimality). Exhaustive inside the bounds.",
            TRUSTED, "3 (C07)"),
    "C16": ("explicit-state enumeration of rule-boundary configurations (full products per builder type) executed on the real code; comparison with a reference representability predicate; list lengths where an 8/16-bit count wraps (256.., 65536..), prefixes on non-PRIV items, multi-byte texts around the 255-byte limit",
            "Every rule parameter is taken to limit-1/limit/limit+1/type-max in full products per builder type (so all pairs of violated rules occur); calculate_size must accept exactly the representable configurations and name a violated rule otherwise. Oversize packets accepted by five builder types are recorded known findings.",
            TRUSTED, "3 (C16)"),
    "C17": ("explicit-state enumeration of writer targets x buffer lengths executed on the real code under two complementary prefill patterns and under buffers that already hold part of the image (the image with the bytes at each of the 16 residue sets mod 4 inverted, with all but the first and last byte inverted, with one byte inverted); every configuration additionally in the probed flavour, and through the public write_into_unchecked with buffers of n, n+4, n+12 bytes",
            "Each (target, buffer length) is written twice into buffers pre-filled with a position-dependent pattern and its complement; claimed bytes must agree, bytes beyond must keep their prefill, failed writes must leave the buffer untouched. Exhaustive inside the bounds.",
            TRUSTED, "3 (C17)"),
})

CHECKS.update({
    "C08": ("exhaustive enumeration of byte strings (header product space, k<=2 byte substitutions of a base set, truncations/extensions) fed to every typed parser of the real code; accepted strings checked against a reference header reader; the same judgement applied to every packet handed out by Compound iteration (against its own tile), over giants and all 1-3-tile datagrams as well",
            "Every string of the stated spaces goes through the 7 typed parsers, Packet::parse and Unknown::parse; any acceptance of an ill-framed string, or a header accessor disagreeing with the header bytes, is a violation. Exhaustive inside the bounds.",
            TRUSTED, "3 (C08)"),
    "C09": ("exhaustive enumeration of reference-encoded packets over walk alphabets and of arbitrary strings; accessor results compared with independent big-endian reads and pointer ranges of the caller's buffer (empty slices included: they must point into the input); derived accessors (string forms, header_data) and the utils::parser field readers compared with the primary bytes, also on slices running past the packet; SR/RR with profile-specific extensions; iterator call histories on report_blocks / ssrcs",
            "Well-formed packets from the independent encoder must be accepted and every accessor must equal the reference read at the RFC offset; every returned slice is checked by pointer arithmetic to lie in the input at the expected offset; arbitrary accepted strings get the same scalar and containment checks.",
            TRUSTED, "3 (C09)"),
    "C10": ("exhaustive enumeration of all SDES-framed strings with short bodies over a small alphabet plus reference-encoded packets and their k<=2 substitutions; three-valued reference tokeniser compared with the real parser on every string; iterator call histories on chunks() / items(); a parsed value must equal a fresh parse after its accessors were called; the same packet reached by seven routes (clone, clone of a clone, Packet::try_as, TryFrom<&Packet>, TryFrom<Packet>, Unknown::try_as, Compound) must read the same",
            "All SDES bodies of 1-3 words over the stated alphabets (complete), every well-formed SDES of the C03 spaces, and deviations thereof are classified must-accept / must-reject / either / unconstrained by an independent tokeniser and compared with Sdes::parse and its accessors, including chunk lengths.",
            TRUSTED, "3 (C10)"),
    "C11": ("explicit-state exploration: all tile sequences up to a depth x tail variants and all short byte strings; the real iterator is stepped in lock-step with a two-variable model (tile index, done) on every next() call including calls after exhaustion; iterator call histories (next / nth / take-count x collect / count / last) on the compound of every 1-3-tile sequence",
            "Compound::parse must accept exactly the strings the reference tiling partitions; tiles+3 calls of next() are compared one by one with the model whose items are Packet::parse of each tile.",
            TRUSTED, "3 (C11)"),
    "C12": ("exhaustive enumeration of byte strings; generic parser compared with the typed parser named by byte 1, and the full 8x7x6 conversion matrix evaluated on every accepted input; well-framed strings of unrecognised types must come out as Unknown; every item of every tiled string compared with Packet::parse of its tile",
            "Packet::parse must equal the typed parser's outcome and payload; unknown types must expose the input by pointer identity; every TryFrom / try_as / From conversion is compared with its specification on every accepted input.",
            TRUSTED, "3 (C12)"),
    "C13": ("exhaustive enumeration packets x all 63 legal paddings applied by an independent reference padder; content accessors of the padded packet compared with those of the unpadded one; also packets of 65280..261888 bytes, SR/RR carrying extensions, padding requested from the crate's own builders, and every padded packet read back through Compound::parse alone and followed by another packet",
            "Every unpadded well-formed packet of the base set and of a stride through every configuration space is padded by the reference padder with every amount 4..=252; acceptance, padding() and all content accessors (blocks, chunks/items, sources/reason, payload, FCI entries) are compared.",
            TRUSTED, "3 (C13)"),
    "C14": ("explicit-state enumeration of all member lists up to a depth over a 20-kind menu (incl. nested compounds, wrapped and third-party members), all pairs of base-set packets and all lists of up to 3 members at the size limits (262144 / 262140 / 65536 / 65532 bytes) executed on the real code; reference predicate and concatenation oracle, then parse-back in lock-step; every list also added to compound builders that are queried after every add_packet / after all but the last of each (nested) builder / only at the start, and written through write_into_unchecked into a larger buffer",
            "For every list: accept iff the reference predicate says so, size = sum, bytes = concatenation of the members' own images, Compound::parse + iteration yields each leaf equal to the leaf parsed alone.",
            TRUSTED, "3 (C14)"),
    "C15": ("exhaustive enumeration of FCI words/bodies (quick: 118 PIDs x all 65536 bitmasks; thorough: all 2^32 NACK and SLI words) of all (kind, format, FCI type) gates, of FCI byte strings delimited by padding counts that are not multiples of 4, and of lists up to the 65533-word maximum; reference decoder compared with the real iterators; iterator call histories on Nack::entries / Fir::entries / Sli::lost_macroblocks (with and without a trailing partial entry; lists of 33..376 words / entries); PLI bodies of every length 0..=256 in 8 fills incl. unannounced padding trailers",
            "Every explored FCI body is decoded by the real parse_fci + iterators and by the reference decoder; gating is checked for 2 kinds x 32 formats x 5 types; the FCI parsers are also driven directly at every length 0..=40.",
            TRUSTED, "3 (C15)"),
    "C18": ("exhaustive enumeration of byte strings fed to every parser of the real code; every returned error compared with facts read from the input by a reference header reader; errors yielded by Compound iteration judged against their own tile; errors of every conversion between packet types (by reference, by value, try_as), also from bare and wrapped unknown packets shorter than the target's minimum",
            "Every Err from the 7 typed parsers, Packet, Unknown, Compound (+iteration), ReportBlock and the 5 FCI parsers is checked for truthfulness of its payload, and the two must-cases (shorter than minimum; length field mismatch) are checked for the exact error.",
            TRUSTED, "3 (C18)"),
})

CHECKS.update({
    "C01": ("exhaustive enumeration of byte strings (six input spaces) fed to every public parsing entry point of the real code, every accessor/conversion/iterator called on every accepted value in two orders (all ordered pairs on a subset), with unwind capture, linear step bounds, a per-case watchdog and an allocation cap; plus iterator call histories (all sequences of next / nth / take-count calls up to a depth x 4 endings) on every iterator reachable from the base set and from every 1-3-tile datagram; the long inputs (giants, runs of up to 200 000 header-only packets, long chains) explored a second time in a child process built with the subject unoptimised, where fatal signals (stack overflow) are caught and reported as the case that caused them",
            "No panic, no iterator beyond its linear bound, no hang and no runaway allocation on any string of the stated spaces through any entry point or accessor. Exhaustive inside the bounds; strings outside them are not covered.",
            TRUSTED, "3 (C01)"),
    "C19": ("exhaustive enumeration of helper parameters, of a 24-member family of third-party packet definitions over the header space, and of Ext / UnknownBuilder configurations executed on the real code; byte-exact helper contracts and a three-valued framing classifier as reference; the utils::parser field readers on slices that hold the leading packet exactly or followed by more bytes; UnknownBuilder configurations also reached by setting other values first with the builder queried after every call",
            "The public writer/parser helpers are checked byte-exactly over all paddings, counts and 17 buffer sizes; check_packet::<P> is compared with the framing classifier for 6 type numbers x 4 minimum sizes on every string of the header space; every written third-party / unknown packet is parsed generically, must expose its bytes and convert back intact, also from inside compounds.",
            TRUSTED, "3 (C19)"),
    "C20": ("history-tree exploration without merging: all sequences of builder method calls up to a depth over a small call alphabet replayed on the real builders and on a trivial model, in four wrapper flavours, compared with the canonical construction of the final state; plus every configuration of the round-trip generator spaces realised in all 16 API flavours (owned/borrowed x 4 wrappers x builder queried after every call or not), each compared with the plain flavour; every history replayed again with the intermediate builder queried after every call; get_padding() and the verdict of [this, BYE] compared across flavours",
            "Every call history up to the stated depth (setters in any order with repeats, list adds, owned/borrowed variants, wrapper flavours) must produce the bytes of the canonical construction of its final configuration (FIR up to entry order).",
            TRUSTED, "3 (C20)"),
})

NOT_YET = {
}

PARSE_SIDE = {"C01", "C08", "C09", "C10", "C11", "C12", "C13", "C15", "C18", "C19"}
BUILD_SIDE = {"C02", "C03", "C04", "C05", "C06", "C07", "C14", "C16", "C17", "C19", "C20"}
CHILD = {"C01", "C08", "C10", "C11", "C12", "C18"}
ITER = {"C01", "C02", "C03", "C04", "C05", "C09", "C10", "C11", "C14", "C15"}
ROUNDTRIP = {"C02", "C03", "C04", "C05"}
_PARSE_TOTALS = "datagrams of three unremarkable tiles summing to every total size up to 9216 bytes, datagrams of 1100 / 1400 / 4000 / 24000-byte tiles whose total crosses 65507, 65536 and 262144 bytes (x 4 tails), SR / RR / BYE strings of every count 0..=31 x every length up to 900 bytes"
_BUILD_TOTALS = "NACK windows and clusters across 0x8000 and the wrap, coinciding SSRCs, texts containing every one- and two-byte character, APP names with every ASCII byte, SDES chunks x items (1..=31 x 0..=80), items in total beyond 7905 / 8192 / 16384, every SDES item type with odd text, NACK words + padding reaching every multiple of 64 words, FIR at the size limit x paddings"
TOTALS = {
    "C01": _PARSE_TOTALS + "; NACK words whose entries reach the top of the number space",
    "C08": _PARSE_TOTALS, "C12": _PARSE_TOTALS, "C18": _PARSE_TOTALS,
    "C11": "datagrams of three tiles summing to every total size, datagrams of mid-size tiles across 65507 / 65536 / 262144 bytes x 4 tails",
    "C09": "large datagrams of mid-size well-formed packets across 65507 / 65536 / 262144 bytes must be accepted tile by tile",
    "C03": _BUILD_TOTALS, "C05": _BUILD_TOTALS, "C04": _BUILD_TOTALS, "C06": _BUILD_TOTALS, "C07": _BUILD_TOTALS, "C17": _BUILD_TOTALS, "C13": _BUILD_TOTALS,
    "C16": _BUILD_TOTALS + "; every fraction-lost value x cumulative-loss values on both sides of 24 bits whose top byte relates to the fraction",
    "C10": "reference images of SDES chunks x items, items in total beyond 8192, every item type with odd text; raw PRIV items of length 248..=255 x prefix length 244..=255",
    "C14": "compounds of three unremarkable members summing to every total size up to 9216 bytes (thorough 32768)",
    "C15": "pairs of NACK words whose second PID is the first plus 0..=18, first mask empty / each single bit / full, from four bases",
    "C19": "compounds of 1400- and 4000-byte third-party / unknown members whose total passes 65536 and 262144 bytes",
}
DENSE = {
    "C01": "tiles per datagram (x 4 tails) and exactly framed packet sizes in words (x 9 types x 4 padding variants; 600 / 2304 words here)",
    "C03": "items per SDES chunk",
    "C04": "APP payload words; the BYE reason length x last byte product (126 x 127)",
    "C05": "NACK words, SLI entries, FIR entries, RPSI bytes",
    "C06": "SDES items, NACK words, SLI / FIR entries, RPSI bytes, APP / unknown payload words (0..=2304) and compound members (1..=450, thorough 1200)",
    "C07": "SDES items, NACK words, SLI / FIR entries, RPSI bytes, APP / unknown payload words (0..=2304) and compound members (1..=450, thorough 1200)",
    "C16": "SDES items, NACK words, SLI / FIR entries, RPSI bytes, APP / unknown payload words (0..=2304) and compound members (1..=450, thorough 1200)",
    "C17": "SDES items, NACK words, SLI / FIR entries, RPSI bytes, APP / unknown payload words (0..=2304) and compound members (1..=450, thorough 1200)",
    "C08": "tiles per datagram (x 4 tails) and exactly framed packet sizes in words (x 9 types x 4 padding variants)",
    "C12": "tiles per datagram (x 4 tails) and exactly framed packet sizes in words (x 9 types x 4 padding variants)",
    "C18": "tiles per datagram (x 4 tails) and exactly framed packet sizes in words (x 9 types x 4 padding variants)",
    "C09": "well-formed packets per datagram (all accepted, tile by tile); APP / unknown payload words",
    "C10": "items per SDES chunk (reference images)",
    "C11": "tiles per datagram x 4 tails, in lock-step with the model",
    "C13": "SDES items, NACK words, SLI / FIR entries, RPSI bytes, APP / unknown payload words of the padded packets (a stride through each space)",
    "C14": "compound members 1..=1200 (thorough 4096): flat, last member padded, nested",
    "C19": "third-party / unknown members per compound 1..=1200 (thorough 4096); unknown payload words",
    "C20": "FIR / NACK list lengths 1..=320 (thorough 1100) x the position of the element added again (every position)",
}

def main():
    props = [json.loads(l) for l in open(os.path.join(HERE, "properties.jsonl"))]
    checks = []
    na = []
    for p in props:
        pid = p["id"]
        if pid in CHECKS:
            tech, text, note, ref = CHECKS[pid]
            tech = tech.replace("20-kind menu", "27-kind menu").replace("x 4 endings", "x 10 endings")
            if pid in PARSE_SIDE:
                tech += "; every input string is handed to the parsers at a chosen address residue modulo 8 (spaces of at most 3e5 strings crossed with all eight residues, larger ones rotate it with the case index)"
            if pid in BUILD_SIDE:
                tech += "; output buffers start at rotating address residues modulo 8; in the probed flavour another builder instance of the same type is configured, sized and written between any two calls on the observed builder; packets read back at rotating address residues"
            if pid in CHILD and pid != "C01":
                tech += "; the long inputs (giants, giant runs and chunks, long chains) explored a second time in a child process built with the subject unoptimised, fatal signals caught"
            if pid in ITER:
                tech += "; iterator call histories with size_hint() after every call and the endings for-loop / count / last / nth / collect / fold / for_each / position / max_by_key / skip+step_by, and a second pass in which size_hint(), an observation ({:?} of the iterator, other values parsed and iterated) and a second iterator over the same value are operations placed anywhere in the history"
            if pid in DENSE:
                tech += "; every-count spaces: every value 0..=2304 (thorough 8192) of " + DENSE[pid]
            if pid in TOTALS:
                tech += "; totals and values: " + TOTALS[pid]
            if pid in ROUNDTRIP:
                tech += "; every built packet also written among other members (10 embedding contexts incl. nested compounds whose members have the sizes of the preceding packets in another order), the same writer used again (too-small buffer, second size, second and larger write), a sibling configuration of the same shape built, written and dropped first, a refusal asked again, an illegal padding set as the last call after the builder was queried; the re-set flavour gives report-block setters, the BYE reason and the PRIV prefix an illegal value first"
            checks.append({
                "property_id": pid,
                "quick_cmd": f"./check {pid} quick",
                "thorough_cmd": f"./check {pid} thorough",
                "evidence_file": f"evidence/{pid}.json",
                "replay_cmd_template": "./check replay {path}",
                "engine": "rtcp-mc",
                "level_claimed": {"category": "model_checking", "text": text, "design_ref": f"DESIGN.md section {ref}"},
                "level_note": note,
                "technique": tech,
            })
        else:
            na.append({"property_id": pid, "reason": NOT_YET.get(pid, "check not built yet in this round; the design (DESIGN.md section 3) decides it by the same bounded exhaustive exploration")})
    m = {
        "version": 1,
        "setup_cmd": "./setup.sh",
        "hooks": {
            "guard": "rtcp_types_verif",
            "enable": "no hooks are needed: every property is observable through the public API; the harness depends on /repo by path and rebuilds it on every check",
            "baseline_off_cmd": "cd /repo && cargo test --workspace --no-fail-fast --offline",
            "source_commits": [],
            "add_only": True,
        },
        "engines": [{
            "name": "rtcp-mc",
            "path": "mc/",
            "serves_properties": [c["property_id"] for c in checks],
            "kind_free_text": "hand-rolled explicit-state explorer (index-addressed product / k-deviation / history-tree spaces, 16-way parallel, per-case containment, watchdog, allocation cap) driving the real crate against an independent RFC reference model",
        }],
        "checks": checks,
        "not_applicable": na,
        "notes": "exit 0 = held on everything explored (KNOWN-FINDING lines possible); 1 = VIOLATION line; 2 = machinery failure. known_findings.txt is read-only for the checks.",
    }
    with open(os.path.join(HERE, "MANIFEST.json"), "w") as f:
        json.dump(m, f, indent=1)
        f.write("\n")

if __name__ == "__main__":
    main()
