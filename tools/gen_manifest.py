#!/usr/bin/env python3
"""Regenerates /verif/MANIFEST.json from the table below (single source for the per-property texts)."""
import json, os

HERE = os.path.dirname(os.path.dirname(os.path.abspath(__file__)))

TRUSTED = ("Trusted base: the independent reference model in mc/src/refmodel (kept honest by setup.sh's self-tests and by "
           "being compared with the implementation on every explored case), rustc, and the harness engine. "
           "Values outside the stated alphabets/bounds are not covered.")

# id -> (technique, level text, level note, design ref)
CHECKS = {
    "C02": ("explicit-state enumeration of builder configurations (k-deviation product over walk alphabets) executed on the real code, reference-model comparison per case",
            "Every SR/RR configuration in the stated product / k-deviation spaces is built and parsed with the real code and compared field by field with the configuration; exhaustive inside the bounds.",
            TRUSTED, "3 (C02)"),
    "C03": ("explicit-state enumeration of SDES configurations (all length pairs, boundary residues x SSRC byte patterns) executed on the real code, reference-model comparison per case",
            "Every SDES configuration in the stated spaces is built, parsed and compared chunk by chunk and item by item; exhaustive inside the bounds.",
            TRUSTED, "3 (C03)"),
    "C04": ("explicit-state enumeration (complete product sources x reason length x padding; APP field product) executed on the real code, reference-model comparison per case",
            "The BYE space 32 x 256 x 64 is complete; APP covers the stated product. Each case is built, parsed and compared.",
            TRUSTED, "3 (C04)"),
    "C05": ("explicit-state enumeration (all subsets of a NACK window, all FIR add-sequences, SLI/RPSI products) executed on the real code, reference-model comparison per case",
            "Every feedback configuration in the stated spaces is built, parsed, its FCI decoded and compared with what was put in; exhaustive inside the bounds.",
            TRUSTED, "3 (C05)"),
}

CHECKS.update({
    "C06": ("explicit-state enumeration of writer targets x buffer lengths executed on the real code; announced size compared with every write outcome",
            "Every writer target (all builders in all API flavours, FCI/chunk/item builders alone, compound member lists, third-party writers; accepted and rejected configurations) is crossed with buffer lengths around the announced size; each write's result is compared with the announcement. Exhaustive inside the bounds.",
            TRUSTED, "3 (C06)"),
    "C07": ("explicit-state enumeration of accepted writer targets executed on the real code; byte-for-byte comparison with an independent RFC encoder (reference model)",
            "Every representable target's bytes (written into a 0xA5-prefilled buffer) are compared byte for byte with the independent encoder's image (FIR as a multiset of entries, NACK by decode/ordering/minimality). Exhaustive inside the bounds.",
            TRUSTED, "3 (C07)"),
    "C16": ("explicit-state enumeration of rule-boundary configurations (full products per builder type) executed on the real code; comparison with a reference representability predicate",
            "Every rule parameter is taken to limit-1/limit/limit+1/type-max in full products per builder type (so all pairs of violated rules occur); calculate_size must accept exactly the representable configurations and name a violated rule otherwise. Oversize packets accepted by five builder types are recorded known findings.",
            TRUSTED, "3 (C16)"),
    "C17": ("explicit-state enumeration of writer targets x buffer lengths executed on the real code under two complementary prefill patterns",
            "Each (target, buffer length) is written twice into buffers pre-filled with a position-dependent pattern and its complement; claimed bytes must agree, bytes beyond must keep their prefill, failed writes must leave the buffer untouched. Exhaustive inside the bounds.",
            TRUSTED, "3 (C17)"),
})

NOT_YET = {
}

def main():
    props = [json.loads(l) for l in open(os.path.join(HERE, "properties.jsonl"))]
    checks = []
    na = []
    for p in props:
        pid = p["id"]
        if pid in CHECKS:
            tech, text, note, ref = CHECKS[pid]
            checks.append({
                "property_id": pid,
                "quick_cmd": f"./check {pid} quick",
                "thorough_cmd": f"./check {pid} thorough",
                "evidence_file": f"evidence/{pid}.json",
                "replay_cmd_template": "./check replay {path}",
                "engine": "rtcp-mc",
                "level_claimed": {"category": "model_checking", "text": text, "design_ref": f"DESIGN.md section {ref}"},
                "level_note": note,
                "technique": tech,
            })
        else:
            na.append({"property_id": pid, "reason": NOT_YET.get(pid, "check not built yet in this round; the design (DESIGN.md section 3) decides it by the same bounded exhaustive exploration")})
    m = {
        "version": 1,
        "setup_cmd": "./setup.sh",
        "hooks": {
            "guard": "rtcp_types_verif",
            "enable": "no hooks are needed: every property is observable through the public API; the harness depends on /repo by path and rebuilds it on every check",
            "baseline_off_cmd": "cd /repo && cargo test --workspace --no-fail-fast --offline",
            "source_commits": [],
            "add_only": True,
        },
        "engines": [{
            "name": "rtcp-mc",
            "path": "mc/",
            "serves_properties": [c["property_id"] for c in checks],
            "kind_free_text": "hand-rolled explicit-state explorer (index-addressed product / k-deviation / history-tree spaces, 16-way parallel, per-case containment, watchdog, allocation cap) driving the real crate against an independent RFC reference model",
        }],
        "checks": checks,
        "not_applicable": na,
        "notes": "exit 0 = held on everything explored (KNOWN-FINDING lines possible); 1 = VIOLATION line; 2 = machinery failure. known_findings.txt is read-only for the checks.",
    }
    with open(os.path.join(HERE, "MANIFEST.json"), "w") as f:
        json.dump(m, f, indent=1)
        f.write("\n")

if __name__ == "__main__":
    main()
