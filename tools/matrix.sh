#!/usr/bin/env bash
# tools/matrix.sh <patch.diff> [Cxx ...]
# Same job as tools/mutant.sh, but leaves /repo and /verif/evidence untouched: the patch is applied to a
# scratch copy of /repo's working tree (outside /repo and /verif), the harness is pointed at the copy with
# VERIF_REPO, evidence/replays go to a scratch directory, and everything is removed afterwards.
# Prints one line per property ("Cxx exit=<code> <keys>") and a final "caught-by:" line.
set -u
HERE="$(cd "$(dirname "$0")/.." && pwd)"
PATCH="$(readlink -f "$1")"; shift
PROPS=("$@")
if [ ${#PROPS[@]} -eq 0 ]; then
  PROPS=(C01 C02 C03 C04 C05 C06 C07 C08 C09 C10 C11 C12 C13 C14 C15 C16 C17 C18 C19 C20)
fi
S="$(mktemp -d /tmp/rtcp-matrix.XXXXXX)"
mkdir -p "$S/repo" "$S/out"
cleanup() { rm -rf "$S"; }
trap cleanup EXIT
(cd /repo && git ls-files -z | xargs -0 cp --parents -t "$S/repo")
if ! (cd "$S/repo" && git init -q . && git apply "$PATCH"); then echo "patch does not apply" >&2; exit 2; fi
rm -rf "$S/repo/.git"
if [ -z "${SKIP_SUITE:-}" ]; then
  if (cd "$S/repo" && CARGO_TARGET_DIR="$S/suite-target" cargo test --offline >"$S/suite.log" 2>&1); then
    echo "suite: passes ($(grep -c '\.\.\. ok' "$S/suite.log") tests ok)"
  else
    echo "suite: FAILS (the repository's own tests catch this change)"
    grep -E "^test .* FAILED|panicked" "$S/suite.log" | head -5
  fi
  rm -rf "$S/suite-target"
fi
CAUGHT=()
for p in "${PROPS[@]}"; do
  out="$(VERIF_REPO="$S/repo" VERIF_SCRATCH_OUT="$S/out" "$HERE/check" "$p" "${TIER:-quick}" 2>&1)"; code=$?
  keys="$(printf '%s\n' "$out" | grep -E '^  key=' | sed -E 's/^  key=([^ ]+).*/\1/' | head -4 | tr '\n' ' ')"
  echo "$p exit=$code $keys"
  [ $code -eq 2 ] && printf '%s\n' "$out" | grep MACHINERY | head -3
  [ $code -eq 1 ] && CAUGHT+=("$p")
done
echo "caught-by: ${CAUGHT[*]:-none}"
