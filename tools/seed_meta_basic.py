#!/usr/bin/env python3
# tools/seed_meta_basic.py  write seeded/<id>/meta.json where it is missing, from notes.md and verify.txt
# (which property, what the change needs to manifest, what was run at intake); tools/seed_run.sh merges the
# per-check results of a matrix run into the same file later.
import json, glob, os, sys
root = os.path.join(os.path.dirname(os.path.abspath(__file__)), '..', 'seeded')
n = 0
for d in sorted(glob.glob(root + '/*')):
    if os.path.exists(d + '/meta.json') or not os.path.exists(d + '/patch.diff'):
        continue
    name = os.path.basename(d)
    prop = name.rsplit('-', 1)[0]
    notes = open(d + '/notes.md').read().strip() if os.path.exists(d + '/notes.md') else ''
    ver = open(d + '/verify.txt').read().strip() if os.path.exists(d + '/verify.txt') else ''
    meta = {
        "breaks_property": prop,
        "written_by": "independent sub-agent given only the property record and a scratch worktree",
        "needs_to_manifest": notes,
        "confirmed": "tools/seed_verify.sh in the agent's worktree: patch applies, repository suite passes with it (94 tests), demo.rs fails with it and passes without it",
        "suite_with_change": "suite: " + ver,
        "checks_run": "tools/matrix.sh (patch applied to a scratch copy of /repo, quick checks run against the copy with VERIF_REPO, copy removed) in the round the seed was taken in; which checks reported it then is recorded in DESIGN.md section 5.1; per_check below is filled in by tools/seed_run.sh whenever the matrix is run again",
        "per_check": {},
    }
    json.dump(meta, open(d + '/meta.json', 'w'), indent=1)
    n += 1
print("wrote", n, "meta.json files")
