#!/usr/bin/env bash
# tools/seed_run.sh <seeded/ID-v> ...   run the quick checks against sub-agent seeds and write meta.json
set -u
HERE="$(cd "$(dirname "$0")/.." && pwd)"
cd "$HERE"
for d in "$@"; do
  d="${d%/}"
  name="$(basename "$d")"
  prop="${name%-*}"
  # MATRIX=own: only the seed's own property (and C01, the catch-all for panics); default: all twenty checks
  if [ "${MATRIX:-all}" = own ] || [ "${MATRIX:-all}" = ownonly ]; then
    if [ "$prop" = C01 ] || [ "${MATRIX:-all}" = ownonly ]; then set_="$prop"; else set_="$prop C01"; fi
    out="$(SKIP_SUITE=1 tools/matrix.sh "$d/patch.diff" $set_ 2>&1)"
    out="$out
suite: $(cat "$d/verify.txt" 2>/dev/null)"
  else
    out="$(tools/matrix.sh "$d/patch.diff" 2>&1)"
  fi
  caught="$(printf '%s\n' "$out" | grep '^caught-by:' | sed 's/^caught-by: //')"
  printf '%s\n' "$out" > "out/seed-$name.log"
  python3 - "$d" "$prop" "$caught" "$out" <<'PY'
import json,sys,re
d,prop,caught,out=sys.argv[1:5]
notes=open(d+'/notes.md').read()
rows={}
for line in out.splitlines():
    m=re.match(r'^(C\d\d) exit=(\d+) ?(.*)$',line)
    if m: rows[m.group(1)]={"exit":int(m.group(2)),"keys":m.group(3).split()}
import os,subprocess
old={}
try:
    old=json.load(open(d+'/meta.json'))
except Exception:
    pass
merged=dict(old.get("per_check",{}))
merged.update(rows)
rows=merged
caught=' '.join(sorted(k for k,v in rows.items() if v.get("exit")==1))
try:
    commit=subprocess.check_output(['git','-C',os.path.dirname(os.path.abspath(d))+'/..','rev-parse','--short','HEAD']).decode().strip()
except Exception:
    commit="?"
meta={
 "breaks_property": prop,
 "written_by": "independent sub-agent given only the property record and a scratch worktree",
 "needs_to_manifest": notes.strip(),
 "confirmed": "tools/seed_verify.sh in the agent's worktree: patch applies, repository suite passes with it (94 tests), demo.rs fails with it and passes without it",
 "suite_with_change": next((l for l in out.splitlines() if l.startswith("suite:")), ""),
 "checks_run": "tools/matrix.sh: patch applied to a scratch copy of /repo, the quick checks listed under per_check run against the copy (VERIF_REPO), copy removed; the repository suite with the change was run by tools/seed_verify.sh at intake (verify.txt)",
 "harness_commit_of_last_run": commit,
 "caught_by": caught.split() if caught and caught!="none" else [],
 "caught_by_own_property": prop in caught.split(),
 "per_check": rows,
}
json.dump(meta,open(d+'/meta.json','w'),indent=1)
print(d, "caught-by:", caught)
PY
done
