#!/usr/bin/env bash
# tools/seed_verify.sh <worktree> <a|b>
# Confirms a sub-agent's seeded change inside its own scratch worktree: the patch applies, the
# crate's own suite still passes with it, the demonstration fails with it and passes without it.
set -u
WT="$1"; V="$2"
S="$WT/SEED/$V"
cd "$WT" || exit 2
git checkout -q -- . ; rm -f tests/demo_seed.rs
[ -f "$S/patch.diff" ] && [ -f "$S/demo.rs" ] || { echo "RESULT missing-files"; exit 1; }
git apply --check "$S/patch.diff" || { echo "RESULT patch-does-not-apply"; exit 1; }
git apply "$S/patch.diff"
export CARGO_NET_OFFLINE=true
if cargo test --offline >/tmp/seed-suite.$$ 2>&1; then suite=pass; else suite=FAIL; fi
nok=$(grep -c '\.\.\. ok' /tmp/seed-suite.$$); rm -f /tmp/seed-suite.$$
cp "$S/demo.rs" tests/demo_seed.rs
if cargo test --offline --test demo_seed >/tmp/seed-demo.$$ 2>&1; then with=pass; else with=FAIL; fi
git checkout -q -- src
if cargo test --offline --test demo_seed >/tmp/seed-demo2.$$ 2>&1; then without=pass; else without=FAIL; fi
rm -f tests/demo_seed.rs /tmp/seed-demo.$$ /tmp/seed-demo2.$$
git checkout -q -- .
echo "RESULT suite=$suite($nok ok) demo-with-change=$with demo-without-change=$without"
[ "$suite" = pass ] && [ "$with" = FAIL ] && [ "$without" = pass ]
