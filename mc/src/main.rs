//! rtcp-mc: bounded exhaustive exploration of rtcp-types against an independent RFC reference model.
//!   rtcp-mc <Cxx> <quick|thorough>      run one property's check
//!   rtcp-mc replay <file>               re-evaluate the single case recorded in a replay file
//!   rtcp-mc selftest                    engine / reference-model self-tests (no subject behaviour involved)

#![allow(dead_code)]

mod engine;
mod props;
mod refmodel;
mod subject;

use engine::run::{machinery_failure, Ctx, Tier};

#[global_allocator]
static ALLOC: engine::guard::CapAlloc = engine::guard::CapAlloc;

fn verif_dir() -> String {
    std::env::var("VERIF_DIR").unwrap_or_else(|_| "/verif".to_string())
}

fn seed() -> u64 {
    std::env::var("VERIF_SEED").ok().and_then(|s| s.parse::<u64>().ok()).unwrap_or(0)
}

fn prop_static(id: &str) -> Option<&'static str> {
    props::ALL.iter().copied().find(|p| *p == id)
}

fn main() {
    let args: Vec<String> = std::env::args().skip(1).collect();
    engine::guard::install_panic_hook();
    engine::guard::install_fatal_signal_handler();
    let vd = verif_dir();
    if args.is_empty() {
        eprintln!("usage: rtcp-mc <Cxx> <quick|thorough> | replay <file> | selftest");
        std::process::exit(2);
    }
    match args[0].as_str() {
        "selftest" => {
            let code = selftest();
            std::process::exit(code);
        }
        "replay" => {
            let path = args.get(1).unwrap_or_else(|| machinery_failure("replay needs a file"));
            let src = std::fs::read_to_string(path).unwrap_or_else(|e| machinery_failure(&format!("cannot read {}: {}", path, e)));
            let j = engine::json::parse(&src).unwrap_or_else(|e| machinery_failure(&format!("cannot parse {}: {}", path, e)));
            let prop = j.get("property_id").and_then(|v| v.as_str()).and_then(prop_static).unwrap_or_else(|| machinery_failure("replay file lacks property_id"));
            let tier = match j.get("tier").and_then(|v| v.as_str()) {
                Some("thorough") => Tier::Thorough,
                _ => Tier::Quick,
            };
            let seed = j.get("seed").and_then(|v| v.as_u64()).unwrap_or(0);
            let space = j.get("space").and_then(|v| v.as_str()).unwrap_or_else(|| machinery_failure("replay file lacks space")).to_string();
            let idx = j.get("index").and_then(|v| v.as_u64()).unwrap_or_else(|| machinery_failure("replay file lacks index"));
            println!("replaying {} {} {}[{}] (seed {})", prop, tier.name(), space, idx, seed);
            if let Some(c) = j.get("case").and_then(|v| v.as_str()) {
                println!("recorded case: {}", c);
            }
            if let Some(c) = j.get("detail").and_then(|v| v.as_str()) {
                println!("recorded detail: {}", c);
            }
            engine::guard::set_alloc_cap(8 << 30);
            engine::spawn_watchdog(prop, tier, seed, vd.clone(), true);
            let known = engine::known::Known::load(&format!("{}/known_findings.txt", vd));
            let mut ctx = Ctx::new(prop, tier, seed, Some((space, idx)), &vd);
            if !props::run(&mut ctx) {
                machinery_failure("no check is implemented for this property");
            }
            std::process::exit(ctx.finish(&known));
        }
        id => {
            let prop = prop_static(id).unwrap_or_else(|| machinery_failure(&format!("unknown property {}", id)));
            let tier = match args.get(1).map(|s| s.as_str()).or(std::env::var("VERIF_TIER").ok().as_deref()) {
                Some("thorough") => Tier::Thorough,
                Some("quick") | None => Tier::Quick,
                Some(t) => machinery_failure(&format!("unknown tier {}", t)),
            };
            if let Err(m) = refmodel::selfcheck() {
                machinery_failure(&m);
            }
            engine::guard::set_alloc_cap(tier.pick(12usize << 30, 24usize << 30));
            engine::spawn_watchdog(prop, tier, seed(), vd.clone(), false);
            let known = engine::known::Known::load(&format!("{}/known_findings.txt", vd));
            let mut ctx = Ctx::new(prop, tier, seed(), None, &vd);
            ctx.known_keys = known.keys_for(prop);
            if !props::run(&mut ctx) {
                machinery_failure("no check is implemented for this property");
            }
            std::process::exit(ctx.finish(&known));
        }
    }
}

fn selftest() -> i32 {
    use engine::space::*;
    // index <-> case bijection of product spaces and sequence spaces
    let r = Radix::new(&[3, 5, 2, 7]);
    for i in 0..r.len() {
        let c = r.coords(i);
        if r.encode(&c) != i {
            eprintln!("selftest: radix bijection broken at {}", i);
            return 2;
        }
    }
    let mut seen = std::collections::BTreeSet::new();
    for i in 0..seq_count(3, 4) {
        let s = seq_decode(3, i);
        if s.len() > 4 || !seen.insert(s) {
            eprintln!("selftest: sequence decoding broken at {}", i);
            return 2;
        }
    }
    for n in 0..300 {
        for salt in 0..5 {
            if text(n, salt, salt % 2 == 0).len() != n {
                eprintln!("selftest: text({}) has the wrong length", n);
                return 2;
            }
        }
    }
    // json round trip
    let j = engine::json::J::obj().set("a", engine::json::J::u(7)).set("b", engine::json::J::s("x\"y\n"));
    if engine::json::parse(&j.render()).ok() != Some(j) {
        eprintln!("selftest: json round trip broken");
        return 2;
    }
    // reading SLI entries from their Debug rendering: by name, in any order, else by position
    for (txt, want) in [
        ("MacroBlockEntry { start: 1, count: 2, picture_id: 3 }", Some((1u16, 2u16, 3u8))),
        ("MacroBlockEntry { picture_id: 3, start: 1, count: 2 }", Some((1, 2, 3))),
        ("MacroBlockEntry {\n    first_mb: 0x1fff,\n    number: 8191,\n    pic: 63,\n}", Some((0x1fff, 8191, 63))),
        ("Entry(7, 8, 9)", Some((7, 8, 9))),
        ("Entry(123456)", None),
    ] {
        if subject::observe::sli_from_debug(txt) != want {
            eprintln!("selftest: SLI Debug reader fails on {:?}", txt);
            return 2;
        }
    }
    match refmodel::selfcheck() {
        Ok(n) => println!("selftest: reference encoder reproduces {} suite vectors", n),
        Err(m) => {
            eprintln!("selftest: {}", m);
            return 2;
        }
    }
    match props::common::refmodel_roundtrip_selftest() {
        Ok(n) => println!("selftest: reference decode(encode(x)) == x on {} configurations", n),
        Err(m) => {
            eprintln!("selftest: {}", m);
            return 2;
        }
    }
    println!("selftest: ok");
    0
}
