//! C01: parsing untrusted bytes never panics and always terminates — every public parsing entry
//! point on every string of six input spaces, and on every accepted value every public accessor,
//! conversion and iterator (step-capped), in two orders; all ordered accessor pairs on a subset.

use super::bytes::{self, ByteSpace};
use crate::engine::guard;
use crate::engine::json::hex_short;
use crate::engine::run::{fp_bytes, Ctx, Local, Tier};
use crate::engine::space::B12;
use rtcp_types::prelude::*;
use rtcp_types::*;

/// Debug rendering into a sink that discards the text (the Debug impls run, nothing is allocated).
struct Sink(usize);
impl std::fmt::Write for Sink {
    fn write_str(&mut self, s: &str) -> std::fmt::Result {
        self.0 += s.len();
        Ok(())
    }
}
fn dbg_sink<T: std::fmt::Debug>(x: &T) -> usize {
    use std::fmt::Write;
    let mut s = Sink(0);
    let _ = write!(s, "{:?}", x);
    s.0
}

/// An accessor call: returns false if an iterator ran past its step bound.
type Acc<T> = (&'static str, fn(&T, usize) -> bool);

fn drain<I: Iterator>(it: I, bound: usize) -> bool {
    let mut n = 0usize;
    let mut it = it;
    while let Some(_x) = it.next() {
        n += 1;
        if n > bound {
            return false;
        }
    }
    // a finished iterator keeps returning None
    for _ in 0..3 {
        if it.next().is_some() {
            return false;
        }
    }
    true
}

fn touch_rb(rb: &ReportBlock) {
    let _ = (
        rb.ssrc(),
        rb.fraction_lost(),
        rb.cumulative_lost(),
        rb.extended_sequence_number(),
        rb.interarrival_jitter(),
        rb.last_sender_report_timestamp(),
        rb.delay_since_last_sender_report_timestamp(),
    );
    let _ = dbg_sink(&rb);
}

macro_rules! header_accs {
    ($T:ty) => {
        [
            ("version", (|p: &$T, _| { let _ = p.version(); true }) as fn(&$T, usize) -> bool),
            ("type_", |p: &$T, _| { let _ = p.type_(); true }),
            ("subtype", |p: &$T, _| { let _ = p.subtype(); true }),
            ("count", |p: &$T, _| { let _ = p.count(); true }),
            ("length", |p: &$T, _| { let _ = p.length(); true }),
            ("header_data", |p: &$T, _| { let _ = p.header_data(); true }),
            ("Debug", |p: &$T, _| { let _ = dbg_sink(&p); true }),
            ("Clone+Eq", |p: &$T, _| { let q = p.clone(); q == *p }),
        ]
    };
}

fn sr_accs() -> Vec<Acc<SenderReport<'static>>> {
    let mut v: Vec<Acc<SenderReport>> = header_accs!(SenderReport<'static>).to_vec();
    v.extend_from_slice(&[
        ("padding", |p, _| { let _ = p.padding(); true }),
        ("n_reports", |p, _| { let _ = p.n_reports(); true }),
        ("ssrc", |p, _| { let _ = p.ssrc(); true }),
        ("ntp_timestamp", |p, _| { let _ = p.ntp_timestamp(); true }),
        ("rtp_timestamp", |p, _| { let _ = p.rtp_timestamp(); true }),
        ("packet_count", |p, _| { let _ = p.packet_count(); true }),
        ("octet_count", |p, _| { let _ = p.octet_count(); true }),
        ("report_blocks", |p, _| {
            let mut n = 0;
            for rb in p.report_blocks() {
                touch_rb(&rb);
                n += 1;
                if n > 32 {
                    return false;
                }
            }
            drain(p.report_blocks(), 32)
        }),
    ]);
    v
}

fn rr_accs() -> Vec<Acc<ReceiverReport<'static>>> {
    let mut v: Vec<Acc<ReceiverReport>> = header_accs!(ReceiverReport<'static>).to_vec();
    v.extend_from_slice(&[
        ("padding", |p, _| { let _ = p.padding(); true }),
        ("n_reports", |p, _| { let _ = p.n_reports(); true }),
        ("ssrc", |p, _| { let _ = p.ssrc(); true }),
        ("report_blocks", |p, _| {
            let mut n = 0;
            for rb in p.report_blocks() {
                touch_rb(&rb);
                n += 1;
                if n > 32 {
                    return false;
                }
            }
            drain(p.report_blocks(), 32)
        }),
    ]);
    v
}

fn touch_item(it: &SdesItem) {
    let _ = (it.type_(), it.length(), it.value().len());
    let _ = it.get_value_string();
    if it.type_() == SdesItem::PRIV {
        // the only documented panic precondition: asking a non-PRIV item for its prefix
        let _ = it.priv_prefix_len();
        let _ = it.priv_prefix().len();
    }
    let _ = dbg_sink(&it);
    let _ = it.clone() == *it;
}

fn sdes_accs() -> Vec<Acc<Sdes<'static>>> {
    let mut v: Vec<Acc<Sdes>> = header_accs!(Sdes<'static>).to_vec();
    v.extend_from_slice(&[
        ("padding", |p, _| { let _ = p.padding(); true }),
        ("chunks", |p, len| {
            let mut n = 0;
            for c in p.chunks() {
                let _ = (c.ssrc(), c.length());
                let mut m = 0;
                for it in c.items() {
                    touch_item(it);
                    m += 1;
                    if m > len / 2 + 1 {
                        return false;
                    }
                }
                if !drain(c.items(), len / 2 + 1) {
                    return false;
                }
                let _ = dbg_sink(&c);
                n += 1;
                if n > len / 4 + 1 {
                    return false;
                }
            }
            drain(p.chunks(), len / 4 + 1)
        }),
    ]);
    v
}

fn bye_accs() -> Vec<Acc<Bye<'static>>> {
    let mut v: Vec<Acc<Bye>> = header_accs!(Bye<'static>).to_vec();
    v.extend_from_slice(&[
        ("padding", |p, _| { let _ = p.padding(); true }),
        ("ssrcs", |p, _| drain(p.ssrcs(), 32)),
        ("reason", |p, _| { let _ = p.reason().map(|r| r.len()); true }),
        ("get_reason_string", |p, _| { let _ = p.get_reason_string(); true }),
    ]);
    v
}

fn app_accs() -> Vec<Acc<App<'static>>> {
    let mut v: Vec<Acc<App>> = header_accs!(App<'static>).to_vec();
    v.extend_from_slice(&[
        ("padding", |p, _| { let _ = p.padding(); true }),
        ("ssrc", |p, _| { let _ = p.ssrc(); true }),
        ("name", |p, _| { let _ = p.name(); true }),
        ("get_name_string", |p, _| { let _ = p.get_name_string(); true }),
        ("data", |p, _| { let _ = p.data().len(); true }),
    ]);
    v
}

fn touch_nack(n: &Nack, len: usize) -> bool {
    drain(n.entries(), 17 * (len / 4) + 1)
}
fn touch_fir(f: &Fir, len: usize) -> bool {
    let mut n = 0;
    for e in f.entries() {
        let _ = (e.ssrc(), e.sequence());
        let _ = dbg_sink(&e);
        n += 1;
        if n > len / 8 + 1 {
            return false;
        }
    }
    drain(f.entries(), len / 8 + 1)
}
fn touch_sli(s: &Sli, len: usize) -> bool {
    let mut n = 0;
    for e in s.lost_macroblocks() {
        let _ = dbg_sink(&e);
        n += 1;
        if n > len / 4 + 1 {
            return false;
        }
    }
    let _ = dbg_sink(&s);
    drain(s.lost_macroblocks(), len / 4 + 1)
}
fn touch_rpsi(r: &Rpsi) -> bool {
    let _ = r.payload_type();
    let (b, i) = r.bit_string();
    let _ = (b.len(), i);
    let _ = dbg_sink(&r);
    true
}

macro_rules! fb_accs {
    ($T:ty) => {{
        let mut v: Vec<Acc<$T>> = header_accs!($T).to_vec();
        v.extend_from_slice(&[
            ("padding", (|p: &$T, _| { let _ = p.padding(); true }) as fn(&$T, usize) -> bool),
            ("sender_ssrc", |p: &$T, _| { let _ = p.sender_ssrc(); true }),
            ("media_ssrc", |p: &$T, _| { let _ = p.media_ssrc(); true }),
            ("parse_fci::<Nack>", |p: &$T, len| p.parse_fci::<Nack>().map(|n| touch_nack(&n, len)).unwrap_or(true)),
            ("parse_fci::<Pli>", |p: &$T, _| { let _ = p.parse_fci::<Pli>().map(|x| dbg_sink(&x)); true }),
            ("parse_fci::<Sli>", |p: &$T, len| p.parse_fci::<Sli>().map(|n| touch_sli(&n, len)).unwrap_or(true)),
            ("parse_fci::<Rpsi>", |p: &$T, _| p.parse_fci::<Rpsi>().map(|n| touch_rpsi(&n)).unwrap_or(true)),
            ("parse_fci::<Fir>", |p: &$T, len| p.parse_fci::<Fir>().map(|n| touch_fir(&n, len)).unwrap_or(true)),
        ]);
        v
    }};
}

fn tfb_accs() -> Vec<Acc<TransportFeedback<'static>>> {
    fb_accs!(TransportFeedback<'static>)
}
fn pfb_accs() -> Vec<Acc<PayloadFeedback<'static>>> {
    fb_accs!(PayloadFeedback<'static>)
}

pub struct Accs {
    sr: Vec<Acc<SenderReport<'static>>>,
    rr: Vec<Acc<ReceiverReport<'static>>>,
    sdes: Vec<Acc<Sdes<'static>>>,
    bye: Vec<Acc<Bye<'static>>>,
    app: Vec<Acc<App<'static>>>,
    tfb: Vec<Acc<TransportFeedback<'static>>>,
    pfb: Vec<Acc<PayloadFeedback<'static>>>,
}

impl Accs {
    pub fn new() -> Accs {
        Accs { sr: sr_accs(), rr: rr_accs(), sdes: sdes_accs(), bye: bye_accs(), app: app_accs(), tfb: tfb_accs(), pfb: pfb_accs() }
    }
}

/// Call every accessor forwards then backwards (and all ordered pairs when `pairs`);
/// Err(name) = an iterator did not finish within its bound. The list is typed for 'static views;
/// the views only borrow the input, so shortening the lifetime for the call is sound.
fn run_accs<T>(list: &[Acc<T>], v: &T, len: usize, pairs: bool, l: &mut Local) -> Result<(), &'static str> {
    for (name, f) in list.iter() {
        l.transitions += 1;
        if !f(v, len) {
            return Err(name);
        }
    }
    for (name, f) in list.iter().rev() {
        l.transitions += 1;
        if !f(v, len) {
            return Err(name);
        }
    }
    if pairs {
        for (na, fa) in list.iter() {
            for (nb, fb) in list.iter() {
                l.transitions += 2;
                if !fa(v, len) {
                    return Err(na);
                }
                if !fb(v, len) {
                    return Err(nb);
                }
            }
        }
    }
    Ok(())
}

// The accessor tables are declared for T<'static>; a parsed view of a shorter-lived buffer has the
// same layout and the accessors never let the borrow escape, so the tables are reused via this cast.
macro_rules! as_static {
    ($v:expr, $T:ident) => {
        unsafe { &*($v as *const $T<'_> as *const $T<'static>) }
    };
}

fn touch_packet(a: &Accs, p: &Packet, len: usize, pairs: bool, l: &mut Local) -> Result<(), &'static str> {
    let _ = p.is_unknown();
    let _ = (p.version(), p.type_(), p.count(), p.subtype(), p.length(), p.header_data());
    let _ = dbg_sink(&p);
    l.transitions += 8;
    // conversions to every typed packet (value or error, never a panic)
    let _ = p.try_as::<SenderReport>().map(|x| x.ssrc());
    let _ = p.try_as::<ReceiverReport>().map(|x| x.ssrc());
    let _ = p.try_as::<Sdes>().map(|x| x.padding());
    let _ = p.try_as::<Bye>().map(|x| x.padding());
    let _ = p.try_as::<App>().map(|x| x.data().len());
    let _ = p.try_as::<TransportFeedback>().map(|x| x.media_ssrc());
    let _ = p.try_as::<PayloadFeedback>().map(|x| x.media_ssrc());
    l.transitions += 7;
    match p {
        Packet::Sr(x) => run_accs(&a.sr, as_static!(x, SenderReport), len, pairs, l),
        Packet::Rr(x) => run_accs(&a.rr, as_static!(x, ReceiverReport), len, pairs, l),
        Packet::Sdes(x) => run_accs(&a.sdes, as_static!(x, Sdes), len, pairs, l),
        Packet::Bye(x) => run_accs(&a.bye, as_static!(x, Bye), len, pairs, l),
        Packet::App(x) => run_accs(&a.app, as_static!(x, App), len, pairs, l),
        Packet::TransportFeedback(x) => run_accs(&a.tfb, as_static!(x, TransportFeedback), len, pairs, l),
        Packet::PayloadFeedback(x) => run_accs(&a.pfb, as_static!(x, PayloadFeedback), len, pairs, l),
        Packet::Unknown(u) => {
            let _ = u.data().len();
            let _ = (u.version(), u.type_(), u.count(), u.length());
            let _ = dbg_sink(&u);
            l.transitions += 6;
            Ok(())
        }
    }
}

#[derive(Clone, Copy, PartialEq, Eq)]
enum Mode {
    /// every entry point
    All,
    /// SDES-framed strings: compound, generic and SDES entry points only
    SdesOnly,
    /// raw FCI bodies: the FCI parsers and the report-block parser only
    FciOnly,
    /// giants: like All, but accessors once
    Giant,
}

fn c01_case(a: &Accs, s: &[u8], mode: Mode, pairs: bool, l: &mut Local) {
    l.evals += 1;
    l.states += 1;
    l.sample(|| hex_short(s));
    let len = s.len();
    let mut past_framing = false;
    macro_rules! entry {
        ($site:expr, $body:expr) => {{
            l.transitions += 1;
            match guard::catch(|| $body) {
                Err(pi) => l.subject_panic($site, &pi, || hex_short(s)),
                Ok(Err(name)) => l.violation(format!("iterator-does-not-finish:{}:{}", $site, name), || hex_short(s), || format!("{} yielded more items than the {}-byte input can hold", name, len)),
                Ok(Ok(accepted)) => {
                    if accepted {
                        past_framing = true;
                    }
                }
            }
        }};
    }
    if mode != Mode::FciOnly {
        entry!("Compound", {
            match Compound::parse(s) {
                Err(_) => Ok::<bool, &'static str>(false),
                Ok(mut c) => {
                    let _ = dbg_sink(&c);
                    let bound = len / 4 + 1;
                    let mut n = 0;
                    let mut res = Ok(true);
                    while let Some(item) = c.next() {
                        n += 1;
                        if n > bound {
                            res = Err("Compound::next");
                            break;
                        }
                        if let Ok(p) = &item {
                            if mode != Mode::Giant || n <= 4 {
                                if let Err(e) = touch_packet(a, p, len, false, l) {
                                    res = Err(e);
                                    break;
                                }
                            }
                        }
                    }
                    if res.is_ok() {
                        for _ in 0..3 {
                            if c.next().is_some() {
                                res = Err("Compound::next after the end");
                            }
                        }
                    }
                    res
                }
            }
        });
        entry!("Packet", {
            match Packet::parse(s) {
                Err(_) => Ok(false),
                Ok(p) => touch_packet(a, &p, len, pairs, l).map(|_| true),
            }
        });
        entry!("Unknown", {
            match Unknown::parse(s) {
                Err(_) => Ok::<bool, &'static str>(false),
                Ok(u) => {
                    let _ = u.data().len();
                    let _ = dbg_sink(&u);
                    let _ = u.try_as::<SenderReport>().map(|x| x.report_blocks().count());
                    let _ = u.try_as::<ReceiverReport>().map(|x| x.report_blocks().count());
                    let _ = u.try_as::<Sdes>().map(|x| x.chunks().count());
                    let _ = u.try_as::<Bye>().map(|x| x.reason().map(|r| r.len()));
                    let _ = u.try_as::<App>().map(|x| x.data().len());
                    let _ = u.try_as::<TransportFeedback>().map(|x| x.media_ssrc());
                    let _ = u.try_as::<PayloadFeedback>().map(|x| x.media_ssrc());
                    let _ = SenderReport::try_from(Unknown::parse(s).unwrap()).map(|x| x.ssrc());
                    let p = Packet::from(u);
                    let _ = p.is_unknown();
                    Ok(true)
                }
            }
        });
    }
    if mode == Mode::All || mode == Mode::Giant {
        // the typed parsers directly (the one matching byte 1 was already exercised through Packet)
        entry!("SenderReport", SenderReport::parse(s).map(|x| run_accs(&a.sr, as_static!(&x, SenderReport), len, false, l).map(|_| true)).unwrap_or(Ok(false)));
        entry!("ReceiverReport", ReceiverReport::parse(s).map(|x| run_accs(&a.rr, as_static!(&x, ReceiverReport), len, false, l).map(|_| true)).unwrap_or(Ok(false)));
        entry!("Bye", Bye::parse(s).map(|x| run_accs(&a.bye, as_static!(&x, Bye), len, false, l).map(|_| true)).unwrap_or(Ok(false)));
        entry!("App", App::parse(s).map(|x| run_accs(&a.app, as_static!(&x, App), len, false, l).map(|_| true)).unwrap_or(Ok(false)));
        entry!("TransportFeedback", TransportFeedback::parse(s).map(|x| run_accs(&a.tfb, as_static!(&x, TransportFeedback), len, false, l).map(|_| true)).unwrap_or(Ok(false)));
        entry!("PayloadFeedback", PayloadFeedback::parse(s).map(|x| run_accs(&a.pfb, as_static!(&x, PayloadFeedback), len, false, l).map(|_| true)).unwrap_or(Ok(false)));
    }
    if mode != Mode::FciOnly {
        entry!("Sdes", Sdes::parse(s).map(|x| run_accs(&a.sdes, as_static!(&x, Sdes), len, pairs, l).map(|_| true)).unwrap_or(Ok(false)));
    }
    if mode == Mode::All || mode == Mode::FciOnly {
        entry!("ReportBlock", {
            Ok::<bool, &'static str>(match ReportBlock::parse(s) {
                Ok(rb) => {
                    touch_rb(&rb);
                    true
                }
                Err(_) => false,
            })
        });
        entry!("Nack(direct)", <Nack as FciParser>::parse(s).map(|x| if touch_nack(&x, len) { Ok(true) } else { Err("Nack::entries") }).unwrap_or(Ok(false)));
        entry!("Fir(direct)", <Fir as FciParser>::parse(s).map(|x| if touch_fir(&x, len) { Ok(true) } else { Err("Fir::entries") }).unwrap_or(Ok(false)));
        entry!("Sli(direct)", <Sli as FciParser>::parse(s).map(|x| if touch_sli(&x, len) { Ok(true) } else { Err("Sli::lost_macroblocks") }).unwrap_or(Ok(false)));
        entry!("Rpsi(direct)", <Rpsi as FciParser>::parse(s).map(|x| { touch_rpsi(&x); Ok::<bool, &'static str>(true) }).unwrap_or(Ok(false)));
        entry!("Pli(direct)", <Pli as FciParser>::parse(s).map(|x| { let _ = dbg_sink(&x); Ok::<bool, &'static str>(true) }).unwrap_or(Ok(false)));
    }
    if past_framing {
        l.hit("accepted by at least one entry point");
        l.nontrivial(fp_bytes(s));
    } else {
        l.hit("rejected by every entry point");
    }
    l.validated += 1;
}

pub fn c01(ctx: &mut Ctx) {
    ctx.rule = "every string of six input spaces goes to every public parsing entry point (Compound::parse + full iteration, Packet::parse, the typed parsers, Unknown::parse + try_as x7, ReportBlock::parse, the five FCI parsers directly and through parse_fci on both feedback kinds); on every accepted value every public accessor, conversion, Debug/Clone/Eq and iterator is called forwards and backwards with iterators step-capped linearly in the input length and polled 3 times past their end; all ordered accessor pairs on the base set W and on the short SDES bodies. Oracle: no unwind, no iterator over its bound, no case over 20 s (watchdog), no runaway allocation (cap). non-trivial = accepted by at least one entry point, distinct by fingerprint".into();
    ctx.bound("S1", "byte0 (all 256) x 13 types x 7 length-field variants x lengths 0..=56 x 6 last bytes x 3 fills; all 256 types on a reduced alphabet");
    ctx.bound("S2", ctx.tier.pick("W: k=1 over 256 values; k=2 over 12 symbols, bases <= 32 bytes", "W: k=1 over 256 values; k=2 over 26 symbols, bases <= 48 bytes"));
    ctx.bound("S3", ctx.tier.pick("SDES bodies: 1-2 words x 8 symbols, 3 words x 4 symbols", "SDES bodies: 1-2 words x 8 symbols, 3 words x 6 symbols, 4 words x 3 symbols (4 words x 4 symbols: C10 thorough)"));
    bytes::placement_bound(ctx);
    ctx.bound("S4", "raw FCI bodies: every length 0..=40 x first byte (all) x 4 second bytes x 3 fills");
    ctx.bound("S5", "every truncation and +1..+8 extension of W, with/without length resync");
    ctx.bound("long chains", "chains of 7..1025 well-formed tiles of mixed sizes x 12 tail variants");
    ctx.bound("S6", "giants: 262144-byte packets of each type (4 fills), 65536 BYEs, two maximal packets, 262145 bytes, maximal SDES of minimal chunks, feedback packets of 65548 / 131072 / 262144 bytes under each FCI type's own gate (3 fills)");
    ctx.assume("the exempt calls are priv_prefix_len()/priv_prefix() on non-PRIV items (documented panic precondition); they are called on PRIV items only");
    ctx.assume("source scan: no Cell/RefCell/Mutex/Atomic/static mut/unsafe under /repo/src, so &self accessors cannot carry hidden state between calls (recorded, not relied upon: two orders and all pairs are executed anyway)");
    let accs = Accs::new();
    let a = &accs;
    let bases = bytes::base_images();
    // In the unoptimised second build (see `unoptimised_build_pass`) only the spaces whose inputs are long - where
    // the depth of a recursion or the size of a frame matters - and the cheap ones are run.
    let child = super::common::is_frames_child();
    let run = |ctx: &mut Ctx, sp: ByteSpace, mode: Mode, pairs: bool| {
        if child && sp.len > 1_000_000 {
            return;
        }
        // giants rotate the address residue, everything small enough is crossed with all eight (engine::place); the
        // unoptimised child rotates throughout
        let lim = if child || matches!(mode, Mode::Giant) { 0 } else { bytes::cross_limit(ctx) };
        sp.run(ctx, &sp.name, lim, |s, l| c01_case(a, s, mode, pairs, l));
    };
    run(ctx, bytes::s1_full(), Mode::All, false);
    run(ctx, bytes::s1_all_types(), Mode::All, false);
    run(ctx, bytes::s1_long_padded(), Mode::All, false);
    run(ctx, bytes::dev1_space(bases.clone()), Mode::All, false);
    run(ctx, bytes::trunc_ext_space(bases.clone()), Mode::All, false);
    match ctx.tier {
        Tier::Quick => run(ctx, bytes::dev2_space(bases.clone(), B12.to_vec(), 32), Mode::All, false),
        Tier::Thorough => run(ctx, bytes::dev2_space(bases.clone(), crate::engine::space::b26(), 48), Mode::All, false),
    }
    // all ordered accessor pairs on the base set
    let nb = bases.len() as u64;
    let b2 = bases.clone();
    run(ctx, ByteSpace::new("W-all-accessor-pairs", nb, move |idx, out| { out.clear(); out.extend_from_slice(&b2[idx as usize]); }), Mode::All, true);
    let a8 = vec![0x00u8, 0x01, 0x02, 0x03, 0x04, 0x08, 0x09, 0xFF];
    run(ctx, bytes::sdes_bodies_space(1, a8.clone(), vec![0, 1, 2]), Mode::SdesOnly, true);
    run(ctx, bytes::sdes_bodies_space(2, a8.clone(), vec![1]), Mode::SdesOnly, false);
    match ctx.tier {
        Tier::Quick => run(ctx, bytes::sdes_bodies_space(3, vec![0x00, 0x01, 0x08, 0xFF], vec![1]), Mode::SdesOnly, false),
        Tier::Thorough => {
            run(ctx, bytes::sdes_bodies_space(3, vec![0x00, 0x01, 0x02, 0x08, 0x09, 0xFF], vec![1]), Mode::SdesOnly, false);
            // 4 words over 3 symbols here; the 4-symbol space (8.6e9 strings, 19 minutes) is run by C10's thorough
            // tier, whose oracle includes "no panic"
            run(ctx, bytes::sdes_bodies_space(4, vec![0x00, 0x01, 0x08], vec![1]), Mode::SdesOnly, false);
        }
    }
    run(ctx, bytes::sdes_utf8_split_space(), Mode::All, true);
    run(ctx, bytes::fci_raw_space(), Mode::FciOnly, false);
    run(ctx, bytes::giants_space(), Mode::Giant, false);
    run(ctx, bytes::giants_runs_space(), Mode::Giant, false);
    run(ctx, bytes::long_chain_space(), Mode::All, false);
    if !super::common::is_frames_child() {
        let nd = super::gens::dense_bound(ctx.tier);
        ctx.bound("every count", format!("datagrams of every tile count 1..={n} x 4 tails; exactly framed packets of every size 4..={b} bytes (2400 in the quick tier, 9216 in the thorough one) x 9 types x 4 padding variants; the reference images of the every-count configuration spaces (SDES chunks of 0..={n} items, NACK / SLI / FIR lists of 0..={n} entries, RPSI strings of 0..={n} bytes, APP and unknown payloads of 0..={n} words)", n = nd, b = "N"));
        run(ctx, bytes::dense_chain_space(nd), Mode::All, false);
        // every accessor of every parser on every size: the cost is quadratic in the bound, so a smaller one here
        // (C08 / C12 / C18 run the framing oracles over sizes up to the full bound)
        run(ctx, bytes::dense_size_space(ctx.tier.pick(600, 2304)), Mode::All, false);
        run(ctx, bytes::dense_total_space(ctx.tier.pick(1200, 2304)), Mode::All, false);
        run(ctx, bytes::big_chain_space(), Mode::Giant, false);
        run(ctx, bytes::count_x_length_space(), Mode::All, false);
    }
    // iterator call histories ("all accessor/iterator call sequences"): every iterator reachable from the base set
    // and from every well-tiled datagram of 1..=3 menu tiles is driven through every sequence of next / nth /
    // take-count calls up to a depth and every ending (collect / count / last / nth(remaining))
    {
        let depth = ctx.tier.pick(3u32, 4u32);
        ctx.bound("iterator histories", format!("every iterator of every packet of the base set W and of every 1..=3-tile datagram of the tile menu: all call sequences of length <= {} over {{next, nth(0), nth(1), nth(2), nth(7), take(2).count()}} x 10 endings, size_hint() after every call", depth));
        let b3 = bases.clone();
        let lim = if child { 0 } else { bytes::cross_limit(ctx) };
        ByteSpace::new("W", nb, move |idx, out| { out.clear(); out.extend_from_slice(&b3[idx as usize]); }).run(ctx, "W-iterator-histories", lim, |s, l| {
            l.evals += 1;
            l.sample(|| format!("iterator histories on {}", hex_short(s)));
            super::common::all_iterator_histories(l, s, depth);
        });
        bytes::tile_seq_space(3).run(ctx, "tile-sequence-iterator-histories", lim, |s, l| {
            l.evals += 1;
            l.sample(|| format!("iterator histories on {}", hex_short(s)));
            super::common::all_iterator_histories(l, s, depth);
        });
    }
    // the same on packets whose collections are empty or nearly so (an iterator that has nothing to yield still has
    // a life: made, asked for its size, made again while the first is alive), and on the bare FCI parsers with 0..=9
    // bytes
    {
        use crate::refmodel::model::*;
        use crate::refmodel::wire::encode;
        let fb = |kind, fci| Pkt::Fb { kind, sender: 1, media: 2, fci, pad: 0 };
        let mut degenerate: Vec<Vec<u8>> = vec![
            encode(&fb(Kind::Transport, Fci::Nack(vec![]))),
            encode(&fb(Kind::Transport, Fci::Nack(vec![7]))),
            encode(&fb(Kind::Payload, Fci::Fir(vec![(1, 2)]))),
            encode(&fb(Kind::Payload, Fci::Sli(vec![(1, 2, 3)]))),
            encode(&Pkt::Bye { ssrcs: vec![], reason: String::new(), pad: 0 }),
            encode(&Pkt::Bye { ssrcs: vec![], reason: "r".into(), pad: 0 }),
            encode(&Pkt::Sdes { chunks: vec![], pad: 0 }),
            encode(&Pkt::Sdes { chunks: vec![Chunk { ssrc: 1, items: vec![] }], pad: 0 }),
            encode(&Pkt::Sdes { chunks: vec![Chunk { ssrc: 0, items: vec![] }, Chunk { ssrc: 0, items: vec![] }], pad: 4 }),
            encode(&Pkt::Rr { ssrc: 1, blocks: vec![], pad: 0 }),
            encode(&Pkt::Sr { ssrc: 1, ntp: 2, rtp: 3, pc: 4, oc: 5, blocks: vec![], pad: 4 }),
        ];
        // padded forms of the first four (an FCI that is empty once the padding is taken away)
        for i in 0..4 {
            let p = crate::refmodel::wire::pad_packet(&degenerate[i], 4);
            degenerate.push(p);
        }
        let nd = degenerate.len() as u64;
        let depth = ctx.tier.pick(3u32, 4u32);
        let lim = if child { 0 } else { bytes::cross_limit(ctx) };
        ByteSpace::new("degenerate", nd, move |idx, out| { out.clear(); out.extend_from_slice(&degenerate[idx as usize]); }).run(ctx, "empty-collection-iterator-histories", lim, |s, l| {
            l.evals += 1;
            l.sample(|| format!("iterator histories on {}", hex_short(s)));
            super::common::all_iterator_histories(l, s, depth);
        });
        // NACK words whose entries reach or pass the top of the sequence-number space: PIDs 0xFFE0..=0xFFFF x masks
        // (empty, each single bit, full, alternating), alone and followed by a second word, iterated to the end
        ctx.run_space("nack-words-at-the-top-of-the-number-space", 32 * 20 * 2, |idx, l| {
            use rtcp_types::prelude::*;
            use rtcp_types::*;
            l.evals += 1;
            l.states += 1;
            let pid = 0xFFE0u16 + (idx % 32) as u16;
            let mask: u16 = match (idx / 32) % 20 {
                0 => 0,
                17 => 0xFFFF,
                18 => 0xAAAA,
                19 => 0x5555,
                b => 1 << (b - 1),
            };
            let mut body = Vec::new();
            body.extend_from_slice(&pid.to_be_bytes());
            body.extend_from_slice(&mask.to_be_bytes());
            if idx / 640 == 1 {
                body.extend_from_slice(&[0x00, 0x03, 0x80, 0x01]);
            }
            let r = guard::catch(|| {
                let direct = <Nack as FciParser>::parse(&body).map(|x| x.entries().take(40).count());
                let mut pkt = vec![0x81, 205, 0, (2 + body.len() / 4) as u8, 0, 0, 0, 1, 0, 0, 0, 2];
                pkt.extend_from_slice(&body);
                let via = TransportFeedback::parse(&pkt).ok().and_then(|t| t.parse_fci::<Nack>().ok().map(|x| x.entries().take(40).count()));
                (direct.ok(), via)
            });
            l.transitions += 2;
            match r {
                Err(pi) => l.subject_panic("Nack::entries", &pi, || hex_short(&body)),
                Ok(_) => l.hit("accepted by at least one entry point"),
            }
        });
        ctx.run_space("bare-fci-iterator-histories", 10 * 3, |idx, l| {
            use rtcp_types::prelude::*;
            use rtcp_types::*;
            l.evals += 1;
            let body: Vec<u8> = (0..idx % 10).map(|i| (i as u8).wrapping_mul(53).wrapping_add(idx as u8)).collect();
            let show = || format!("bare FCI {}", hex_short(&body));
            let r = guard::catch(|| {
                use super::common::{iterator_histories, iterator_reference};
                match idx / 10 {
                    0 => {
                        if let Ok(x) = <Nack as FciParser>::parse(&body) {
                            let r = iterator_reference(x.entries(), 200);
                            iterator_histories(l, "Nack::entries", &|| x.entries(), &r, depth, &show);
                        }
                    }
                    1 => {
                        if let Ok(x) = <Fir as FciParser>::parse(&body) {
                            let r = iterator_reference(x.entries(), 200);
                            iterator_histories(l, "Fir::entries", &|| x.entries(), &r, depth, &show);
                        }
                    }
                    _ => {
                        if let Ok(x) = <Sli as FciParser>::parse(&body) {
                            let r = iterator_reference(x.lost_macroblocks(), 200);
                            iterator_histories(l, "Sli::lost_macroblocks", &|| x.lost_macroblocks(), &r, depth, &show);
                        }
                    }
                }
            });
            if let Err(pi) = r {
                l.subject_panic("iterator-history", &pi, show);
            }
        });
    }
    ctx.require_hit("accepted by at least one entry point");
    ctx.require_hit("rejected by every entry point");
    if !child {
        super::common::unoptimised_build_pass(ctx, "the spaces of at most 1e6 cases (truncations/extensions, one-byte substitutions, accessor pairs, raw FCI bodies, S6, S6b, long chains, iterator histories)");
    }
}

