//! Index-addressed configuration spaces shared by the builder-side properties
//! (C02-C07, C13, C17, C20) and the base set W of small well-formed packets.

use crate::engine::deviate::Dev;
use crate::engine::run::Tier;
use crate::engine::space::*;
use crate::refmodel::model::*;

pub struct CfgSpace {
    pub name: String,
    pub len: u64,
    pub get: Box<dyn Fn(u64) -> Pkt + Sync + Send>,
}

impl CfgSpace {
    pub fn new(name: &str, len: u64, get: impl Fn(u64) -> Pkt + Sync + Send + 'static) -> CfgSpace {
        CfgSpace { name: name.to_string(), len, get: Box::new(get) }
    }
}

/// distinct, recognisable default values ("sentinels") for fields that do not deviate
pub fn sentinel_rb(i: usize, salt: u32) -> Rb {
    let i = i as u32;
    Rb {
        ssrc: 0xA100_0000 ^ salt ^ (i << 8) ^ 0x11,
        fraction: 0x40u8.wrapping_add(i as u8),
        cum: 0x00B2_0000 ^ (i << 4) ^ 0x3,
        ext_seq: 0xC300_0000 ^ (i << 12) ^ 0x55,
        jitter: 0xD400_0000 ^ (i << 16) ^ 0x77,
        lsr: 0xE500_0000 ^ (i << 20) ^ 0x99,
        dlsr: 0xF600_0000 ^ (i << 2) ^ 0xBB00,
    }
}

fn salt32(seed: u64) -> u32 {
    (crate::engine::run::mix(seed ^ 0x5EED) as u32) & 0x000F_0F00
}

// ------------------------------------------------------------------------------------------
// C02: SR / RR

/// List lengths where a count narrowed to 8 or 16 bits wraps back into 0..=31 (256.., 512.., 65536..): more than
/// 31 blocks / sources / chunks cannot be represented, so the builder must refuse; what it accepts must round-trip.
pub const WIDE_COUNTS: [usize; 12] = [34, 255, 256, 257, 287, 288, 511, 512, 543, 65_535, 65_536, 65_567];
pub fn wide_count_space(kind: u64) -> CfgSpace {
    let name = ["sr-wide-block-counts", "rr-wide-block-counts", "bye-wide-source-counts", "sdes-wide-chunk-counts"][kind as usize];
    CfgSpace::new(name, 12 * 2, move |idx| {
        let n = WIDE_COUNTS[(idx % 12) as usize];
        let pad = if idx / 12 == 0 { 0u8 } else { 8 };
        match kind {
            0 => Pkt::Sr { ssrc: 1, ntp: 2, rtp: 3, pc: 4, oc: 5, blocks: (0..n).map(|i| sentinel_rb(i, 0)).collect(), pad },
            1 => Pkt::Rr { ssrc: 1, blocks: (0..n).map(|i| sentinel_rb(i, 0)).collect(), pad },
            2 => Pkt::Bye { ssrcs: (0..n as u32).collect(), reason: String::new(), pad },
            _ => Pkt::Sdes { chunks: (0..n).map(|i| Chunk { ssrc: i as u32, items: vec![] }).collect(), pad },
        }
    })
}

pub fn sr_rr_spaces(tier: Tier, seed: u64) -> Vec<CfgSpace> {
    let salt = salt32(seed);
    let w32 = u32_walk();
    let w64 = u64_walk();
    let w24 = u24_walk();
    let mut v = vec![wide_count_space(0), wide_count_space(1)];

    // (1) k-deviation product over the scalar fields and the seven fields of one distinguished block.
    // quick: k<=2 over 12 shapes; thorough: k<=2 over 30 shapes, and k<=3 over 4 shapes (k<=3 over all 30 would be
    // 4.3e9 configurations - measured at 13 minutes per check on an idle machine, for no new pairwise interaction)
    let dims: Vec<u64> = vec![
        w32.len() as u64, // 0 ssrc
        w64.len() as u64, // 1 ntp
        w32.len() as u64, // 2 rtp
        w32.len() as u64, // 3 pc
        w32.len() as u64, // 4 oc
        w32.len() as u64, // 5 blk.ssrc
        256,              // 6 blk.fraction
        w24.len() as u64, // 7 blk.cum
        w32.len() as u64, // 8 blk.ext_seq
        w32.len() as u64, // 9 blk.jitter
        w32.len() as u64, // 10 blk.lsr
        w32.len() as u64, // 11 blk.dlsr
    ];
    // shapes: (number of blocks, index of the distinguished block, padding, is_sr)
    let shapes_of = |nd: &[(usize, usize)], pads: &[u8]| {
        let mut shapes: Vec<(usize, usize, u8, bool)> = Vec::new();
        for &sr in &[true, false] {
            for &(n, d) in nd {
                for &pad in pads {
                    shapes.push((n, d, pad, sr));
                }
            }
        }
        shapes
    };
    let mut plans: Vec<(usize, Vec<(usize, usize, u8, bool)>)> = Vec::new();
    match tier {
        Tier::Quick => plans.push((2, shapes_of(&[(1, 0), (3, 1), (31, 30)], &[0, 8]))),
        Tier::Thorough => {
            plans.push((2, shapes_of(&[(1, 0), (2, 0), (3, 1), (31, 0), (31, 30)], &[0, 4, 252])));
            plans.push((3, shapes_of(&[(3, 1)], &[0, 8])));
        }
    }
    for (k, shapes) in plans {
        let dev = Dev::new(&dims, k);
        let nshapes = shapes.len() as u64;
        let devlen = dev.len();
        let (w32a, w64a, w24a) = (w32.clone(), w64.clone(), w24.clone());
        v.push(CfgSpace::new(&format!("sr-rr-fields-k{}", k), devlen * nshapes, move |idx| {
            let (n, d, pad, sr) = shapes[(idx % nshapes) as usize];
            let c = dev.decode(idx / nshapes);
            let g32 = |f: usize, dflt: u32| c[f].map(|i| w32a[i as usize]).unwrap_or(dflt);
            let mut blocks: Vec<Rb> = (0..n).map(|i| sentinel_rb(i, salt)).collect();
            let b = &mut blocks[d];
            b.ssrc = g32(5, b.ssrc);
            b.fraction = c[6].map(|i| i as u8).unwrap_or(b.fraction);
            b.cum = c[7].map(|i| w24a[i as usize]).unwrap_or(b.cum);
            b.ext_seq = g32(8, b.ext_seq);
            b.jitter = g32(9, b.jitter);
            b.lsr = g32(10, b.lsr);
            b.dlsr = g32(11, b.dlsr);
            let ssrc = g32(0, 0x0A0B_0C0D ^ salt);
            if sr {
                Pkt::Sr {
                    ssrc,
                    ntp: c[1].map(|i| w64a[i as usize]).unwrap_or(0x1112_1314_1516_1718),
                    rtp: g32(2, 0x2122_2324),
                    pc: g32(3, 0x3132_3334),
                    oc: g32(4, 0x4142_4344),
                    blocks,
                    pad,
                }
            } else {
                Pkt::Rr { ssrc, blocks, pad }
            }
        }));
    }

    // (2) every block count x every legal padding
    let pads = pad_all();
    v.push(CfgSpace::new("sr-rr-count-x-padding", 2 * 32 * 64, move |idx| {
        let sr = idx % 2 == 0;
        let n = ((idx / 2) % 32) as usize;
        let pad = pads[(idx / 64) as usize];
        let blocks: Vec<Rb> = (0..n).map(|i| sentinel_rb(i, salt)).collect();
        if sr {
            Pkt::Sr { ssrc: 0x0102_0304, ntp: 0x1112_1314_1516_1718, rtp: 0x2122_2324, pc: 0x3132_3334, oc: 0x4142_4344, blocks, pad }
        } else {
            Pkt::Rr { ssrc: 0x0102_0304, blocks, pad }
        }
    }));

    // (2b) cumulative-lost over the whole 32-bit walk: values above 24 bits are the builder's to refuse, but whatever
    // it accepts must come back unchanged (a sign-extended "negative" loss that is let through would come back
    // truncated)
    let w32c = w32.clone();
    let nc = w32c.len() as u64;
    v.push(CfgSpace::new("rb-cumulative-lost-32-bit-walk", nc * 2 * 3, move |idx| {
        let cum = w32c[(idx % nc) as usize];
        let sr = (idx / nc) % 2 == 0;
        let n = [1usize, 2, 31][(idx / nc / 2) as usize];
        let mut blocks: Vec<Rb> = (0..n).map(|i| sentinel_rb(i, salt)).collect();
        blocks[n - 1].cum = cum;
        if sr {
            Pkt::Sr { ssrc: 1, ntp: 2, rtp: 3, pc: 4, oc: 5, blocks, pad: 0 }
        } else {
            Pkt::Rr { ssrc: 1, blocks, pad: 4 }
        }
    }));

    // (2c) block lists as patterns (equal ends with a differing middle, runs of identical blocks, alternations, two
    // blocks about the same source), SR and RR
    v.push(CfgSpace::new("sr-rr-block-patterns", seq_count(4, 5) * 2, move |idx| {
        // A, B: different sources; A+ / A-: the same source as A with a larger / smaller extended sequence number
        // (two reports about one source are legal); every sequence of length 0..=5 over the four
        let (a, b) = (sentinel_rb(3, salt), sentinel_rb(17, salt ^ 0x0101_0101));
        let mut ap = a.clone();
        ap.ext_seq = a.ext_seq.wrapping_add(5);
        ap.jitter ^= 0x0F0F;
        let mut am = a.clone();
        am.ext_seq = a.ext_seq.wrapping_sub(5);
        am.fraction ^= 0x55;
        let seq = seq_decode(4, idx / 2);
        let blocks: Vec<Rb> = seq.iter().map(|&k| [&a, &b, &ap, &am][k as usize].clone()).collect();
        if idx % 2 == 0 {
            Pkt::Sr { ssrc: 9, ntp: 8, rtp: 7, pc: 6, oc: 5, blocks, pad: 0 }
        } else {
            Pkt::Rr { ssrc: 9, blocks, pad: 4 }
        }
    }));

    // (2c') a report block about the packet's own source, alone, first, in the middle and last, among blocks about
    // other sources; and blocks whose loss count exceeds / equals / is below their extended sequence number
    v.push(CfgSpace::new("sr-rr-block-about-own-ssrc-and-loss-vs-sequence", 2 * 6 * 5, move |idx| {
        let own = 0x0909_0909u32;
        let shape = (idx / 2) % 6;
        let rel = idx / 12;
        let mut mine = sentinel_rb(5, salt);
        mine.ssrc = own;
        let (seq, cum) = [(0x1234u32, 0x02_0000u32), (0x1234, 0x1235), (0x1234, 0x1234), (1, 0x00FF_FFFF), (0xFFFF_FFFF, 0)][rel as usize];
        mine.ext_seq = seq;
        mine.cum = cum;
        let (o1, o2) = (sentinel_rb(1, salt ^ 0x11), sentinel_rb(2, salt ^ 0x22));
        let blocks = match shape {
            0 => vec![mine],
            1 => vec![mine, o1],
            2 => vec![o1, mine, o2],
            3 => vec![o1, o2, mine],
            4 => vec![mine.clone(), mine],
            _ => vec![o1, mine.clone(), mine],
        };
        if idx % 2 == 0 {
            Pkt::Sr { ssrc: own, ntp: 8, rtp: 7, pc: 6, oc: 5, blocks, pad: 0 }
        } else {
            Pkt::Rr { ssrc: own, blocks, pad: 0 }
        }
    }));

    // (2d) relations between fields: every field of the packet (and of every block) carrying the SAME walk value -
    // sender SSRC = timestamps = counts = every block field - so that equal neighbours occur, not only distinct ones
    let w32e = w32.clone();
    let ne = w32e.len() as u64;
    v.push(CfgSpace::new("sr-rr-all-fields-equal", ne * 2 * 3, move |idx| {
        let x = w32e[(idx % ne) as usize];
        let sr = (idx / ne) % 2 == 0;
        let n = [1usize, 2, 3][(idx / ne / 2) as usize];
        let rb = Rb { ssrc: x, fraction: x as u8, cum: x & 0x00FF_FFFF, ext_seq: x, jitter: x, lsr: x, dlsr: x };
        let blocks = vec![rb; n];
        if sr {
            Pkt::Sr { ssrc: x, ntp: ((x as u64) << 32) | x as u64, rtp: x, pc: x, oc: x, blocks, pad: 0 }
        } else {
            Pkt::Rr { ssrc: x, blocks, pad: 0 }
        }
    }));

    // (3) fraction-lost x cumulative-lost share a word: full product
    let w24b = w24.clone();
    let nw = w24b.len() as u64;
    v.push(CfgSpace::new("rb-fraction-x-cumulative", 256 * nw * 2, move |idx| {
        let sr = idx % 2 == 0;
        let fr = ((idx / 2) % 256) as u8;
        let cum = w24b[((idx / 512) % nw) as usize];
        let mut blocks: Vec<Rb> = (0..2).map(|i| sentinel_rb(i, salt)).collect();
        blocks[1].fraction = fr;
        blocks[1].cum = cum;
        if sr {
            Pkt::Sr { ssrc: 1, ntp: 2, rtp: 3, pc: 4, oc: 5, blocks, pad: 0 }
        } else {
            Pkt::Rr { ssrc: 1, blocks, pad: 4 }
        }
    }));
    v
}

// ------------------------------------------------------------------------------------------
// C03: SDES

fn val(n: usize, salt: u64) -> Vec<u8> {
    text(n, salt, salt % 3 == 0).into_bytes()
}

fn sdes_item_kind(kind: u64, len: usize, salt: u64) -> Option<Item> {
    // kinds: 0 CNAME, 1 NOTE, 2 type 9, 3 type 255, 4..=7 PRIV with prefix length 0..=3
    match kind {
        0 => Some(Item::new(1, &val(len, salt))),
        1 => Some(Item::new(7, &val(len, salt))),
        2 => Some(Item::new(9, &val(len, salt))),
        3 => Some(Item::new(255, &val(len, salt))),
        4..=7 => {
            let pl = (kind - 4) as usize;
            if pl + len > 254 {
                return None;
            }
            let prefix: Vec<u8> = (0..pl).map(|i| [0x00u8, 0xFF, 0x08][i % 3]).collect();
            Some(Item::priv_(&prefix, &val(len, salt)))
        }
        _ => None,
    }
}

/// list sizes that cross every counter width a maintainer might pick (u4..u16) and the 17-wide NACK window
pub fn many_counts() -> Vec<usize> {
    let mut v: Vec<usize> = (4..=40).collect();
    v.extend_from_slice(&[63, 64, 65, 127, 128, 129, 255, 256, 257, 300, 1000]);
    v
}

/// items whose encoded lengths sum to exactly `bytes` (>= 2)
fn fill_items(bytes: usize, salt: u64) -> Vec<Item> {
    let mut rem = bytes;
    let mut items = Vec::new();
    let mut i = 0u64;
    while rem >= 2 {
        let mut l = (rem - 2).min(255);
        if rem - (2 + l) == 1 {
            l -= 1;
        }
        items.push(Item::new(1 + ((salt + i) % 7) as u8, &val(l, salt ^ i)));
        rem -= 2 + l;
        i += 1;
    }
    items
}

/// The "every count" spaces: where the format's own limit on a count or size is far away (items in a chunk, NACK
/// words, FIR / SLI entries, RPSI and payload bytes, packets in a datagram, members of a compound), every value from 0
/// up to this bound is explored, not only small ones and the values next to powers of two: an implementation is free
/// to pick any number in between for an inline buffer, a batch, a "reasonable maximum" or an MTU-derived cap (48, 100,
/// 200, 297 = (1200-12)/4, 300, 375 = 1500/4, 1472, 1500, 2048, 9000/4 ...), and a fault at exactly that number or
/// its multiples is otherwise invisible.
pub fn dense_bound(tier: Tier) -> usize {
    tier.pick(2304, 8192)
}

pub fn sdes_spaces(tier: Tier, seed: u64) -> Vec<CfgSpace> {
    let mut v = vec![wide_count_space(3)];
    let s = seed;

    // one chunk with every number of items 0..=dense_bound (item types cycling through CNAME..PRIV, value lengths
    // cycling through the residues), alone / followed by a small second chunk and padded
    let nd = dense_bound(tier) as u64 + 1;
    // a value that contains every character U+0001..=U+07FF (all one- and two-byte characters) once, in the middle
    // and at the end; as a CNAME and as a PRIV value with that same character as its prefix
    v.push(CfgSpace::new("sdes-value-with-every-character", 0x7FF * 3, move |idx| {
        let ch = char::from_u32((idx % 0x7FF) as u32 + 1).unwrap();
        let text = match idx / 0x7FF {
            0 => format!("ab{}cd", ch),
            1 => format!("abc{}", ch),
            _ => format!("{}", ch),
        };
        let items = if idx / 0x7FF == 2 { vec![Item::priv_(text.as_bytes(), text.as_bytes()), Item::new(1, text.as_bytes())] } else { vec![Item::new(1, text.as_bytes())] };
        Pkt::Sdes { chunks: vec![Chunk { ssrc: 0x0506_0708, items }], pad: 0 }
    }));
    // many items in total: chunks x items per chunk whose product passes 7905 (= 31 x 255), 8192 and 16384 while
    // neither factor is remarkable on its own; and totals in bytes beyond 65535 made of chunks x items x value length
    v.push(CfgSpace::new("sdes-many-items-in-total", 10, move |idx| {
        let (c, n, len) = [(31usize, 254usize, 0usize), (31, 256, 1), (31, 265, 0), (4, 2000, 2), (4, 2100, 0), (16, 520, 3), (31, 530, 0), (24, 12, 230), (16, 16, 254), (19, 60, 220)][idx as usize];
        let chunks = (0..c).map(|k| Chunk { ssrc: 0x0100_0000 * (k as u32 + 1) + n as u32, items: (0..n).map(|i| sdes_item_kind(((i + k) % 4) as u64, len, (i * 31 + k) as u64).unwrap()).collect() }).collect();
        Pkt::Sdes { chunks, pad: 0 }
    }));
    // every item type 1..=255 with texts an extension-aware reader might judge (a hyphen, a space, a two-byte
    // character, nothing): RFC 3550 gives a reader no reason to look inside the value of any type
    v.push(CfgSpace::new("sdes-every-type-with-odd-text", 255 * 4, move |idx| {
        let ty = (idx % 255) as u8 + 1;
        let text: &[u8] = [&b"left-1"[..], b"a b", "r\u{e9}".as_bytes(), b""][(idx / 255) as usize];
        let item = if ty == 8 { Item::priv_(b"x", text) } else { Item::new(ty, text) };
        Pkt::Sdes { chunks: vec![Chunk { ssrc: 0x0506_0708, items: vec![item, Item::new(1, b"c")] }], pad: 0 }
    }));
    // chunks x items: 1..=31 chunks of 0..=80 items each (the totals - items over all chunks, bytes - range over
    // many values that no single count reaches alone)
    v.push(CfgSpace::new("sdes-chunks-x-items", 31 * 81, move |idx| {
        let c = (idx % 31) as usize + 1;
        let n = (idx / 31) as usize;
        let chunks = (0..c).map(|k| Chunk { ssrc: 0x0100_0000 * (k as u32 + 1) + n as u32, items: (0..n).map(|i| sdes_item_kind(((i + k) % 8) as u64, (i + k + n) % 5, (i * 31 + k) as u64 ^ idx).unwrap()).collect() }).collect();
        Pkt::Sdes { chunks, pad: if idx % 7 == 0 { 4 } else { 0 } }
    }));
    v.push(CfgSpace::new("sdes-every-item-count", nd * 2, move |idx| {
        let n = (idx / 2) as usize;
        let second = idx % 2 == 1;
        let items: Vec<Item> = (0..n).map(|i| sdes_item_kind((i % 8) as u64, (i * 5 + n) % 4, i as u64 ^ idx).unwrap()).collect();
        let mut chunks = vec![Chunk { ssrc: 0x0000_0001 + (n as u32) * 0x0101, items }];
        if second {
            chunks.push(Chunk { ssrc: 0x0000_0100, items: vec![Item::new(1, b"ab")] });
        }
        Pkt::Sdes { chunks, pad: if second { 4 } else { 0 } }
    }));

    // total sizes around the carries of the 16-bit length field (in words: 0x00FF -> 0x0100 at 1024 bytes, then
    // 2048, 4096): one chunk whose items fill the packet to exactly T - 4, T, T + 4 bytes, with one or several fill
    // bytes, without and with padding
    v.push(CfgSpace::new("sdes-sizes-around-length-field-carries", 4 * 3 * 2 * 2, move |idx| {
        let t = ([1024i64, 2048, 4096, 768][(idx % 4) as usize] + [-4i64, 0, 4][((idx / 4) % 3) as usize]) as usize;
        let pad = if (idx / 12) % 2 == 0 { 0u8 } else { 8 };
        let many_nulls = idx / 24 == 1;
        // 4 (header) + 4 (SSRC) + roundup4(items + 1) + padding = t
        let items_bytes = t - pad as usize - if many_nulls { 12 } else { 9 };
        Pkt::Sdes { chunks: vec![Chunk { ssrc: 0x0A0B_0C0D, items: fill_items(items_bytes, idx) }], pad }
    }));

    // values and PRIV prefixes a normalising writer or reader is tempted to touch (see ODD_TEXTS), as a CNAME, an
    // item of an unassigned type, a PRIV value and a PRIV prefix, alone and followed by another item
    v.push(CfgSpace::new("sdes-odd-values", ODD_TEXTS.len() as u64 * 4 * 2 * 2, move |idx| {
        let n = ODD_TEXTS.len() as u64;
        let t = ODD_TEXTS[(idx % n) as usize].as_bytes();
        let item = match (idx / n) % 4 {
            0 => Item::new(1, t),
            1 => Item::new(77, t),
            2 => Item::priv_(b"pf", t),
            _ => Item::priv_(t, b"val"),
        };
        let mut items = vec![item];
        if (idx / n / 4) % 2 == 1 {
            items.push(Item::new(2, b"next"));
        }
        Pkt::Sdes { chunks: vec![Chunk { ssrc: 0x0506_0708, items }], pad: if idx / n / 8 == 0 { 0 } else { 4 } }
    }));

    // item values of multi-byte characters around and above the 255-BYTE limit whose CHARACTER count stays at or
    // below 255 (the limit is on bytes: above it the builder must refuse, at or below it the value must come back
    // whole), as a CNAME, a NOTE, an item of an unassigned type and a PRIV item with a 1-byte / multi-byte prefix
    v.push(CfgSpace::new("sdes-multibyte-values-around-the-limit", LONG_REASONS * 5 * 2 * 2, move |idx| {
        let text = long_multibyte_text((idx % LONG_REASONS) as usize);
        let kind = (idx / LONG_REASONS) % 5;
        let second = (idx / LONG_REASONS / 5) % 2 == 1;
        let pad = if idx / LONG_REASONS / 10 == 0 { 0 } else { 8 };
        let item = match kind {
            0 => Item::new(1, text.as_bytes()),
            1 => Item::new(7, text.as_bytes()),
            2 => Item::new(200, text.as_bytes()),
            3 => Item::priv_(b"p", text.as_bytes()),
            _ => Item::priv_("\u{e9}\u{20ac}".as_bytes(), text.as_bytes()),
        };
        let mut items = vec![item];
        if second {
            items.insert(0, Item::new(2, b"first"));
        }
        Pkt::Sdes { chunks: vec![Chunk { ssrc: 0x0506_0708, items }], pad }
    }));

    // (a) one chunk, two items, all pairs of value lengths
    let k1: Vec<u64> = tier.pick(vec![0, 6], vec![0, 3, 4, 6]);
    let k2: Vec<u64> = tier.pick(vec![1, 3, 4, 7], vec![0, 1, 2, 3, 4, 5, 6, 7]);
    let pads: Vec<u8> = tier.pick(vec![0, 4], PAD_EDGE.to_vec());
    let ssrcs: Vec<u32> = tier.pick(vec![0x0102_0304, 0], vec![0x0102_0304, 0, 0xFF, 0xFFFF_FFFF]);
    let r = Radix::new(&[256, 256, k1.len() as u64, k2.len() as u64, pads.len() as u64, ssrcs.len() as u64]);
    let rl = r.len();
    v.push(CfgSpace::new("sdes-two-items-len-x-len", rl, move |idx| {
        let c = r.coords(idx);
        let mut items = Vec::new();
        // an unrepresentable PRIV length falls back to a CNAME of the same length
        items.push(sdes_item_kind(k1[c[2] as usize], c[0] as usize, s ^ idx).unwrap_or_else(|| Item::new(1, &val(c[0] as usize, s ^ idx))));
        items.push(sdes_item_kind(k2[c[3] as usize], c[1] as usize, s ^ idx ^ 0x99).unwrap_or_else(|| Item::new(2, &val(c[1] as usize, s ^ idx))));
        Pkt::Sdes { chunks: vec![Chunk { ssrc: ssrcs[c[5] as usize], items }], pad: pads[c[4] as usize] }
    }));

    // (b) boundary-adjacent bytes: 2-3 chunks, every residue of the item bytes, following SSRCs with leading zero bytes
    let mut next_ssrc: Vec<u32> = U32_EDGE.to_vec();
    next_ssrc.extend_from_slice(&[0x0000_0100, 0x0001_0000]);
    let ns = next_ssrc.len() as u64;
    let r = Radix::new(&[2, 8, 8, ns, ns, 4]);
    let rl = r.len();
    v.push(CfgSpace::new("sdes-chunk-boundary-x-next-ssrc", rl, move |idx| {
        let c = r.coords(idx);
        let three = c[0] == 1;
        // item-byte lengths 0..=7 realised as: no item (0), or one item with value length n-2 (n>=2), n==1 -> no item
        let mk = |n: u64, salt: u64| -> Vec<Item> {
            if n < 2 {
                Vec::new()
            } else {
                vec![Item::new(1 + (salt % 7) as u8, &val((n - 2) as usize, salt))]
            }
        };
        let mut chunks = vec![Chunk { ssrc: 0x9182_7364, items: mk(c[1], idx) }, Chunk { ssrc: next_ssrc[c[3] as usize], items: mk(c[2], idx ^ 5) }];
        if three {
            chunks.push(Chunk { ssrc: next_ssrc[c[4] as usize], items: mk((c[1] + c[2]) % 8, idx ^ 9) });
        }
        Pkt::Sdes { chunks, pad: PAD_EDGE[c[5] as usize] }
    }));

    // (c) chunk counts 0..=31 (minimal chunks, and mixed ones)
    v.push(CfgSpace::new("sdes-chunk-count", 32 * 2 * 2, move |idx| {
        let n = (idx % 32) as usize;
        let mixed = (idx / 32) % 2 == 1;
        let pad = if idx / 64 == 1 { 12 } else { 0 };
        let chunks = (0..n)
            .map(|i| Chunk {
                ssrc: if i % 3 == 1 { i as u32 } else { 0x1000_0000 + i as u32 },
                items: if mixed { (0..i % 4).map(|j| sdes_item_kind(((i + j) % 8) as u64, (i * 7 + j) % 40, (i * 31 + j) as u64).unwrap()).collect() } else { Vec::new() },
            })
            .collect();
        Pkt::Sdes { chunks, pad }
    }));

    // (d) maximum lengths: every PRIV split with prefix+value = 254, and 255-byte values of other types
    v.push(CfgSpace::new("sdes-max-lengths", 255 + 4, move |idx| {
        let it = if idx < 255 {
            let pl = idx as usize;
            let prefix: Vec<u8> = (0..pl).map(|i| (i * 7 + 1) as u8).collect();
            Item::priv_(&prefix, &val(254 - pl, idx))
        } else {
            Item::new([1u8, 7, 9, 255][(idx - 255) as usize], &val(255, idx))
        };
        Pkt::Sdes { chunks: vec![Chunk { ssrc: 7, items: vec![it.clone()] }, Chunk { ssrc: 0, items: vec![it] }], pad: if idx % 2 == 0 { 0 } else { 4 } }
    }));

    // (d2) PRIV splits on both sides of the limit: prefix + value = 253 and 254 are representable, 255 and 256 are
    // not (prefix + its length byte + value must fit 255) - what the builder accepts there must still come back
    v.push(CfgSpace::new("sdes-priv-splits-around-the-limit", 257 * 4, move |idx| {
        let pl = (idx % 257) as usize;
        let total = 253 + (idx / 257) as usize;
        let prefix: Vec<u8> = (0..pl.min(total)).map(|i| (i * 7 + 1) as u8).collect();
        let it = Item::priv_(&prefix, &val(total - prefix.len(), idx));
        Pkt::Sdes { chunks: vec![Chunk { ssrc: 0x0102_0304, items: vec![Item::new(1, b"a"), it] }], pad: 0 }
    }));

    v.push(sdes_pattern_space());
    // (e) distance of the last item from the packet end: last item of length 0,1,2 after a filler of every residue
    let r = Radix::new(&[3, 8, 8, 3, 4]);
    let rl = r.len();
    v.push(CfgSpace::new("sdes-short-last-item", rl, move |idx| {
        let c = r.coords(idx);
        let mut items = Vec::new();
        if c[1] >= 2 {
            items.push(Item::new(2, &val((c[1] - 2) as usize, idx)));
        }
        let last = sdes_item_kind(c[2], c[0] as usize, idx ^ 3).unwrap();
        items.push(last);
        let mut chunks = Vec::new();
        for i in 0..c[3] {
            chunks.push(Chunk { ssrc: 0x0100_0000 * (i as u32 + 1), items: vec![Item::new(1, b"x")] });
        }
        chunks.push(Chunk { ssrc: 0x0000_00FF, items });
        Pkt::Sdes { chunks, pad: PAD_EDGE[c[4] as usize] }
    }));

    // (g) many items in one chunk: item counts well above what fits a byte-sized counter or a 255-byte
    // chunk (chunk lengths of several KiB), in the only chunk / the first of two / the last of three
    let counts = many_counts();
    let nc = counts.len() as u64;
    let r = Radix::new(&[nc, 3, 3, 2]);
    let rl = r.len();
    v.push(CfgSpace::new("sdes-many-items", rl, move |idx| {
        let c = r.coords(idx);
        let n = counts[c[0] as usize];
        let items: Vec<Item> = (0..n)
            .map(|i| {
                let len = match c[1] {
                    0 => 0,
                    1 => i % 4,
                    _ => (i * 7) % 11,
                };
                sdes_item_kind(((i + c[1] as usize) % 8) as u64, len, (i as u64) ^ idx).unwrap()
            })
            .collect();
        let big = Chunk { ssrc: 0x0000_0001, items };
        let small = |s: u32| Chunk { ssrc: s, items: vec![Item::new(1, b"ab")] };
        let chunks = match c[2] {
            0 => vec![big],
            1 => vec![big, small(0x0000_0100)],
            _ => vec![small(0x7700_0000), small(0), big],
        };
        Pkt::Sdes { chunks, pad: if c[3] == 0 { 0 } else { 8 } }
    }));

    // (h) at and just under the largest representable SDES packet (65536 words), as one chunk and as 31 chunks
    v.push(CfgSpace::new("sdes-near-size-limit", 8, move |idx| {
        let total = [262_140usize, 262_136, 131_072, 65_540][(idx % 4) as usize]; // bytes of chunks (packet = 4 + this)
        let nchunks = if idx < 4 { 1 } else { 31 };
        let per = (total / nchunks) & !3;
        let mut chunks = Vec::new();
        for k in 0..nchunks {
            let want = if k + 1 == nchunks { total - per * (nchunks - 1) } else { per };
            chunks.push(Chunk { ssrc: 0x0101_0101 * (k as u32 + 1), items: fill_items(want - 5, idx + k as u64) });
        }
        Pkt::Sdes { chunks, pad: 0 }
    }));

    if tier == Tier::Thorough {
        // (f) three items in one chunk: lengths (0..=40)^3 so every residue triple occurs, all paddings on a subset
        let pads = pad_all();
        let r = Radix::new(&[41, 41, 41, 8, 4]);
        let rl = r.len();
        v.push(CfgSpace::new("sdes-three-items", rl, move |idx| {
            let c = r.coords(idx);
            let items = vec![
                sdes_item_kind(c[3], c[0] as usize, idx).unwrap(),
                sdes_item_kind((c[3] + 3) % 8, c[1] as usize, idx ^ 1).unwrap(),
                sdes_item_kind((c[3] + 5) % 8, c[2] as usize, idx ^ 2).unwrap(),
            ];
            let pad = pads[((idx / 7) % 64) as usize];
            let ssrc = [0x0102_0304u32, 0, 0x00FF_0000, 0xFFFF_FF00][c[4] as usize];
            Pkt::Sdes { chunks: vec![Chunk { ssrc, items: items.clone() }, Chunk { ssrc: ssrc.rotate_left(8), items }], pad }
        }));
    }
    v
}

// ------------------------------------------------------------------------------------------
// C04: BYE / APP

pub fn bye_spaces(_tier: Tier, seed: u64) -> Vec<CfgSpace> {
    let pads = pad_all();
    let r = Radix::new(&[32, 256, 64]);
    let rl = r.len();
    vec![CfgSpace::new("bye-sources-x-reason-x-padding", rl, move |idx| {
        let c = r.coords(idx);
        let n = c[0] as usize;
        let ssrcs = (0..n).map(|i| if i % 5 == 4 { i as u32 } else { 0x0B0C_0000 ^ ((i as u32) << 24) ^ i as u32 }).collect();
        Pkt::Bye { ssrcs, reason: text(c[1] as usize, seed ^ idx, idx % 7 == 0), pad: pads[c[2] as usize] }
    }),
    // reasons of multi-byte characters around and above the 255-BYTE limit whose CHARACTER count stays at or below
    // 255 (the limit is on bytes: above it the builder must refuse, at or below it the reason must come back whole)
    CfgSpace::new("bye-multibyte-reasons-around-the-limit", LONG_REASONS * 3 * 2, move |idx| {
        let reason = long_multibyte_text((idx % LONG_REASONS) as usize);
        let n = [0usize, 1, 31][((idx / LONG_REASONS) % 3) as usize];
        Pkt::Bye { ssrcs: (0..n as u32).map(|i| 0x0A00_0000 + i).collect(), reason, pad: if idx / LONG_REASONS / 3 == 0 { 0 } else { 8 } }
    }),
    bye_pattern_space(),
    // reasons a normalising writer or reader is tempted to touch (see ODD_TEXTS) x source counts x two paddings
    CfgSpace::new("bye-odd-reasons", ODD_TEXTS.len() as u64 * 3 * 2, move |idx| {
        let n = ODD_TEXTS.len() as u64;
        let k = [0usize, 1, 3][((idx / n) % 3) as usize];
        Pkt::Bye { ssrcs: (0..k as u32).map(|i| 0x0B00_0000 + i).collect(), reason: ODD_TEXTS[(idx % n) as usize].to_string(), pad: if idx / n / 3 == 0 { 0 } else { 4 } }
    }),
    wide_count_space(2),
    // the last byte of the reason against the reason's length: every length 1..=126 x every last byte 1..=127 (the
    // byte that ends the packet when 1 + len is a multiple of 4 may equal the tail length, a plausible padding count,
    // the length byte itself ... - content that looks like structure), without / with one source
    CfgSpace::new("bye-reason-with-every-character", 0x7FF * 2, move |idx| {
        let ch = char::from_u32((idx % 0x7FF) as u32 + 1).unwrap();
        let reason = if idx / 0x7FF == 0 { format!("ab{}cd", ch) } else { format!("{}", ch) };
        Pkt::Bye { ssrcs: vec![0x0C00_0002], reason, pad: 0 }
    }),
    CfgSpace::new("bye-reason-length-x-last-byte", 126 * 127 * 2, move |idx| {
        let len = (idx % 126) as usize + 1;
        let last = ((idx / 126) % 127) as u8 + 1;
        let mut reason: String = "r".repeat(len - 1);
        reason.push(last as char);
        Pkt::Bye { ssrcs: if idx / (126 * 127) == 0 { vec![] } else { vec![0x0C00_0001] }, reason, pad: 0 }
    })]
}

/// BYE source lists as patterns over three values (duplicates, equal ends, alternations): every sequence of length
/// 0..=5 over {a, b, 0}.
pub fn bye_pattern_space() -> CfgSpace {
    CfgSpace::new("bye-source-patterns", seq_count(3, 5) * 2, |idx| {
        let ssrcs = seq_decode(3, idx / 2).iter().map(|&k| [0x1111_1111u32, 0x2200_0022, 0][k as usize]).collect();
        Pkt::Bye { ssrcs, reason: if idx % 2 == 0 { String::new() } else { "why".into() }, pad: 0 }
    })
}

/// SDES chunk lists as patterns: every sequence of length 0..=4 over four chunk shapes (SSRC 0 without items, SSRC 0
/// with an item, a non-zero SSRC without items, a non-zero SSRC with two items).
pub fn sdes_pattern_space() -> CfgSpace {
    // seven shapes: the four of the doc comment, and three more about the SAME source as shape 1 whose item bytes
    // extend one another (a chunk that begins like its predecessor and goes on, or stops earlier)
    CfgSpace::new("sdes-chunk-patterns", seq_count(7, 4) * 2, |idx| {
        let chunks = seq_decode(7, idx / 2)
            .iter()
            .map(|&k| match k {
                0 => Chunk { ssrc: 0, items: vec![] },
                1 => Chunk { ssrc: 0, items: vec![Item::new(1, b"z")] },
                2 => Chunk { ssrc: 0x0A00_0000, items: vec![] },
                3 => Chunk { ssrc: 0x0000_00B0, items: vec![Item::new(2, b"nm"), Item::priv_(b"p", b"")] },
                4 => Chunk { ssrc: 0, items: vec![Item::new(1, b"z"), Item::new(2, b"y")] },
                5 => Chunk { ssrc: 0, items: vec![Item::new(1, b"z"), Item::new(2, b"y"), Item::priv_(b"", b"w")] },
                _ => Chunk { ssrc: 0, items: vec![Item::new(1, b"zz")] },
            })
            .collect();
        Pkt::Sdes { chunks, pad: if idx % 2 == 0 { 0 } else { 8 } }
    })
}

/// Legal texts a normalising implementation is tempted to touch: trailing / leading / only NULs, trailing and leading
/// white space, line ends, a byte order mark, a text that looks like a number or is a single space.
pub const ODD_TEXTS: [&str; 22] = [
    "abc\0", "\0", "\0\0", "\0\0\0", "a\0b", "\0abc", "abc\0\0", "abcdefg\0", "ab\0", " ", "  ", "bye ", " bye", "Shutting down\n", "line\r\n", "\ttab", "\u{FEFF}abc", "\u{FEFF}", "abc\u{FEFF}", "0", "\u{7f}", "a\u{0301}",
];
pub const LONG_REASONS: u64 = 14;
/// multi-byte texts of 252..=1020 bytes with at most 255 characters
pub fn long_multibyte_text(k: usize) -> String {
    // (character, how many of them, ASCII filler count)
    let (ch, n, fill): (char, usize, usize) = match k {
        0 => ('é', 126, 0),      // 252 bytes
        1 => ('é', 127, 0),      // 254
        2 => ('é', 127, 1),      // 255
        3 => ('é', 128, 0),      // 256 bytes, 128 characters
        4 => ('é', 128, 1),      // 257
        5 => ('é', 129, 0),      // 258
        6 => ('€', 85, 0),       // 255
        7 => ('€', 85, 1),       // 256
        8 => ('€', 86, 0),       // 258
        9 => ('€', 200, 0),      // 600
        10 => ('€', 255, 0),     // 765 bytes, 255 characters
        11 => ('\u{1F600}', 63, 3), // 255
        12 => ('\u{1F600}', 64, 0), // 256
        _ => ('\u{1F600}', 255, 0), // 1020 bytes, 255 characters
    };
    let mut s = String::new();
    for _ in 0..n {
        s.push(ch);
    }
    for _ in 0..fill {
        s.push('z');
    }
    s
}

pub const APP_NAMES: [&str; 13] = ["", "a", "ab", "abc", "abcd", "a\0b", "\0", "\x7f~ Z", "PLI ", " ", "    ", " ab", "a  "];

pub fn app_spaces(tier: Tier, _seed: u64) -> Vec<CfgSpace> {
    let ssrcs: Vec<u32> = tier.pick(U32_EDGE.to_vec(), u32_walk());
    let mut pl: Vec<usize> = tier.pick(vec![0, 4, 8, 12, 64, 1024], (0..=16).map(|k| k * 4).collect());
    if tier == Tier::Thorough {
        pl.push(1024);
    }
    let pads = pad_all();
    let r = Radix::new(&[ssrcs.len() as u64, 32, APP_NAMES.len() as u64, pl.len() as u64, 64]);
    let rl = r.len();
    let big: Vec<usize> = vec![252, 256, 260, 1008, 1012, 1016, 1020, 1024, 1028, 2032, 2036, 2040, 4084, 65_524, 65_528, 65_532, 65_536, 65_540, 262_120, 262_128, 262_132];
    let nb = big.len() as u64;
    vec![
        CfgSpace::new("app-fields", rl, move |idx| {
            let c = r.coords(idx);
            let n = pl[c[3] as usize];
            let data: Vec<u8> = (0..n).map(|i| (i as u64 * 13 + idx) as u8).collect();
            Pkt::App { ssrc: ssrcs[c[0] as usize], subtype: c[1] as u8, name: APP_NAMES[c[2] as usize].to_string(), data, pad: pads[c[4] as usize] }
        }),
        // payload sizes across the 8-bit and 16-bit boundaries of the byte and word counts, up to the largest
        // representable packet (65536 words); the padding is dropped where it would not fit any more
        CfgSpace::new("app-large-payloads", nb * 3, move |idx| {
            let n = big[(idx % nb) as usize];
            let mut pad = [0u8, 4, 252][(idx / nb) as usize];
            if 12 + n + pad as usize > 262_144 {
                pad = (262_144 - 12 - n).min(252) as u8 & !3;
            }
            let data: Vec<u8> = (0..n).map(|i| (i as u64 * 13 + idx) as u8).collect();
            Pkt::App { ssrc: 0x0A0B_0C0D, subtype: 31, name: "big".to_string(), data, pad }
        }),
        // names with every ASCII character 0..=127 at each of the four positions, and as the only character
        CfgSpace::new("app-name-every-character", 128 * 5, move |idx| {
            let ch = (idx % 128) as u8 as char;
            let mut name: Vec<char> = "name".chars().collect();
            let name: String = match idx / 128 {
                4 => ch.to_string(),
                k => {
                    name[k as usize] = ch;
                    name.into_iter().collect()
                }
            };
            Pkt::App { ssrc: 0x0A0B_0C0D, subtype: 2, name, data: vec![1, 2, 3, 4], pad: 0 }
        }),
        // the last payload byte (the packet's last byte when there is no padding): every value x a few sizes
        CfgSpace::new("app-last-payload-byte", 256 * 6, move |idx| {
            let n = [4usize, 8, 12, 16, 252, 256][(idx / 256) as usize];
            let mut data: Vec<u8> = (0..n).map(|i| (i as u8).wrapping_mul(3) | 0x40).collect();
            data[n - 1] = (idx % 256) as u8;
            Pkt::App { ssrc: 0x0A0B_0C0D, subtype: 1, name: "last".to_string(), data, pad: 0 }
        }),
        // every payload size 0, 4, 8 ... 4 * dense_bound bytes (see `dense_bound`), padded on every third
        CfgSpace::new("app-every-payload-size", dense_bound(tier) as u64 + 1, move |idx| {
            let n = idx as usize * 4;
            let data: Vec<u8> = (0..n).map(|i| (i as u64 * 13 + idx) as u8).collect();
            Pkt::App { ssrc: 0x0A0B_0C0D, subtype: (idx % 32) as u8, name: "dns".to_string(), data, pad: [0u8, 0, 12][(idx % 3) as usize] }
        }),
    ]
}

// ------------------------------------------------------------------------------------------
// C05: feedback

pub fn fb_wrap(kind: Kind, fci: Fci, k: u64) -> Pkt {
    // sender / media / padding vary with k (k<=1 deviation from the sentinels)
    let e = U32_EDGE;
    let sender = if k % 3 == 1 { e[(k / 3 % 8) as usize] } else { 0x5E4D_3C2B };
    let media = if k % 3 == 2 { e[(k / 3 % 8) as usize] } else { 0x1A2B_3C4D };
    let pad = PAD_EDGE[(k / 24 % 4) as usize];
    Pkt::Fb { kind, sender, media, fci, pad }
}
pub const FB_WRAPS: u64 = 96;

pub fn nack_spaces(tier: Tier, _seed: u64) -> Vec<CfgSpace> {
    let mut v = Vec::new();
    let w = tier.pick(18u32, 22u32);
    let bases: Vec<u16> = vec![0, 0x1234, (65536 - w as u32 + 0) as u16, 0xFFEE, 0x7FF6];
    let nb = bases.len() as u64;
    let pads: Vec<u8> = vec![0, 4];
    v.push(CfgSpace::new(&format!("nack-subsets-of-{}-window", w), (1u64 << w) * nb * 2, move |idx| {
        let pad = pads[(idx % 2) as usize];
        let base = bases[((idx / 2) % nb) as usize];
        let bits = idx / 2 / nb;
        let mut seqs = Vec::new();
        // add in descending order so insertion order differs from the sorted order
        for k in (0..w).rev() {
            if bits & (1 << k) != 0 {
                seqs.push(base.wrapping_add(k as u16));
            }
        }
        Pkt::Fb { kind: Kind::Transport, sender: 0x5E4D_3C2B, media: 0x1A2B_3C4D, fci: Fci::Nack(seqs), pad }
    }));
    // structured: triples a, a+d1, a+d1+d2, every 17th / 18th value, the full set
    let ds: [u32; 7] = [1, 15, 16, 17, 18, 33, 34];
    let starts: [u32; 6] = [0, 1, 0x1234, 65535 - 70, 65535 - 34, 65535 - 17];
    v.push(CfgSpace::new("nack-triples", 7 * 7 * 6 * FB_WRAPS, move |idx| {
        let k = idx % FB_WRAPS;
        let i = idx / FB_WRAPS;
        let a = starts[(i % 6) as usize];
        let d1 = ds[((i / 6) % 7) as usize];
        let d2 = ds[((i / 42) % 7) as usize];
        let mut seqs = Vec::new();
        for x in [a + d1 + d2, a, a + d1] {
            if x <= 65535 {
                seqs.push(x as u16);
            }
        }
        fb_wrap(Kind::Transport, Fci::Nack(seqs), k)
    }));
    // every pair of gaps 1..=52 between three numbers (the window arithmetic of a word spans 17; where the second
    // number opens a new word matters to the third), and a fourth number at selected gaps
    v.push(CfgSpace::new("nack-three-numbers-all-gaps-to-52", 52 * 52 * 3, move |idx| {
        let d1 = (idx % 52) as u32 + 1;
        let d2 = ((idx / 52) % 52) as u32 + 1;
        let a = [100u32, 0, 65_535 - 104][(idx / 2704) as usize];
        let seqs: Vec<u16> = [a + d1, a + d1 + d2, a].iter().filter(|x| **x <= 65_535).map(|x| *x as u16).collect();
        Pkt::Fb { kind: Kind::Transport, sender: 0x5E4D_3C2B, media: 0x1A2B_3C4D, fci: Fci::Nack(seqs), pad: if idx % 7 == 3 { 4 } else { 0 } }
    }));
    let gaps: [u32; 9] = [1, 8, 16, 17, 18, 25, 33, 34, 35];
    v.push(CfgSpace::new("nack-four-numbers-selected-gaps", 9 * 9 * 9 * 4, move |idx| {
        let (d1, d2, d3) = (gaps[(idx % 9) as usize], gaps[((idx / 9) % 9) as usize], gaps[((idx / 81) % 9) as usize]);
        // from an ordinary base, across 0x8000 (where a signed 16-bit difference changes sign), across the wrap
        let a = [0x2000u32, 0x7FF0, 0x7FC0, 0xFFD0][(idx / 729) as usize];
        Pkt::Fb { kind: Kind::Transport, sender: 0x5E4D_3C2B, media: 0x1A2B_3C4D, fci: Fci::Nack(vec![(a + d1 + d2 + d3) as u16, a as u16, (a + d1 + d2) as u16, (a + d1) as u16]), pad: 0 }
    }));
    // two clusters of two numbers each, every distance class between the clusters (small, just under / at / just
    // over half the number space, nearly all of it), the clusters added in both orders
    let far: [u32; 12] = [40, 1000, 32_700, 32_750, 32_767, 32_768, 32_769, 32_800, 40_000, 65_000, 65_500, 65_530];
    v.push(CfgSpace::new("nack-two-clusters-at-far-distances", 12 * 8 * 2, move |idx| {
        let d = far[(idx % 12) as usize];
        let a = [0u32, 5, 100, 0x7F00, 0x8000, 0xC000, 0xFFF0, 0xFFFF][((idx / 12) % 8) as usize];
        let c1 = [a as u16, (a + 3) as u16];
        let c2 = [(a + d) as u16, (a + d + 2) as u16];
        let seqs = if idx / 96 == 0 { vec![c1[0], c1[1], c2[0], c2[1]] } else { vec![c2[0], c2[1], c1[0], c1[1]] };
        Pkt::Fb { kind: Kind::Transport, sender: 0x5E4D_3C2B, media: 0x1A2B_3C4D, fci: Fci::Nack(seqs), pad: 0 }
    }));
    // pairs and triples at every power-of-two distance (wrap-around of the 16-bit difference)
    let w16 = u16_walk();
    let n16 = w16.len() as u64;
    let firsts: [u16; 8] = [0, 1, 0x1234, 0x7FFF, 0x8000, 0xFFEF, 0xFFFE, 0xFFFF];
    v.push(CfgSpace::new("nack-pairs-at-walk-distances", 8 * n16 * n16, move |idx| {
        let a = firsts[(idx % 8) as usize];
        let d1 = w16[((idx / 8) % n16) as usize];
        let d2 = w16[(idx / 8 / n16) as usize];
        let seqs = vec![a.wrapping_add(d1), a, a.wrapping_add(d1).wrapping_add(d2)];
        fb_wrap(Kind::Transport, Fci::Nack(seqs), idx % FB_WRAPS)
    }));
    v.push(CfgSpace::new("nack-strided-and-full", 8, move |idx| {
        let seqs: Vec<u16> = match idx {
            0 => (0..=65535u32).map(|x| x as u16).collect(),
            1 => (0..=65535u32).step_by(17).map(|x| x as u16).collect(),
            2 => (0..=65535u32).step_by(18).map(|x| x as u16).collect(),
            3 => (0..=65535u32).step_by(16).map(|x| x as u16).collect(),
            4 => (0..=65535u32).rev().step_by(17).map(|x| x as u16).collect(),
            5 => vec![65535, 0],
            6 => vec![0],
            _ => vec![65535],
        };
        fb_wrap(Kind::Transport, Fci::Nack(seqs), idx * 29)
    }));
    v
}

pub fn fir_spaces(tier: Tier, _seed: u64) -> Vec<CfgSpace> {
    let ssrcs: [u32; 5] = [0, 1, 0x0102_0304, 0xFF00_0000, 0xFFFF_FFFF];
    let seqs: [u8; 3] = [0, 1, 255];
    let depth = tier.pick(4, 5);
    let n = seq_count(15, depth);
    // the empty map is a known finding of its own (F2); enumerated separately in C05
    vec![CfgSpace::new(&format!("fir-add-sequences-depth-{}", depth), (n - 1) * 2, move |idx| {
        let s = seq_decode(15, 1 + idx / 2);
        let entries = s.iter().map(|&x| (ssrcs[(x % 5) as usize], seqs[(x / 5) as usize])).collect();
        fb_wrap(Kind::Payload, Fci::Fir(entries), (idx % 2) * 24 + idx % 24)
    })]
}

/// SLI entry lists and FIR add-sequences as patterns over two entries (duplicates, equal ends with a differing middle).
pub fn fb_pattern_spaces() -> Vec<CfgSpace> {
    vec![
        CfgSpace::new("sli-entry-patterns", seq_count(2, 6), |idx| {
            let e = seq_decode(2, idx).iter().map(|&k| if k == 0 { (5u16, 6u16, 7u8) } else { (0x1FFF, 1, 0x3F) }).collect();
            Pkt::Fb { kind: Kind::Payload, sender: 1, media: 2, fci: Fci::Sli(e), pad: 0 }
        }),
    ]
}

/// FIR add-sequences with many distinct SSRCs added in ascending / descending / interleaved order, then one of them
/// added again with a new sequence number (the model keeps the last): where a small-map fast path hands over to
/// another structure.
pub fn fir_many_then_readd_space() -> CfgSpace {
    let counts: [usize; 10] = [3, 7, 8, 9, 10, 16, 17, 32, 33, 70];
    CfgSpace::new("fir-many-ssrcs-then-one-again", 10 * 3 * 3, move |idx| {
        let n = counts[(idx % 10) as usize];
        let order = (idx / 10) % 3;
        let again = (idx / 30) % 3;
        let mut ssrcs: Vec<u32> = (0..n as u32).map(|i| 0x0100_0000 + i * 0x0001_0001).collect();
        match order {
            0 => {}
            1 => ssrcs.reverse(),
            _ => {
                let (a, b): (Vec<u32>, Vec<u32>) = (ssrcs.iter().copied().step_by(2).collect(), ssrcs.iter().copied().skip(1).step_by(2).rev().collect());
                ssrcs = a.into_iter().chain(b).collect();
            }
        }
        let mut adds: Vec<(u32, u8)> = ssrcs.iter().enumerate().map(|(i, s)| (*s, (i % 200) as u8)).collect();
        let which = match again {
            0 => ssrcs[0],
            1 => ssrcs[n / 2],
            _ => ssrcs[n - 1],
        };
        adds.push((which, 0xEE));
        Pkt::Fb { kind: Kind::Payload, sender: 1, media: 2, fci: Fci::Fir(adds), pad: 0 }
    })
}

/// FIR: the number of add_ssrc calls against the number of distinct SSRCs around the largest entry count a packet
/// can carry (32 766): the limit is on entries, so a full list whose SSRCs are refreshed, or very many calls over a
/// few SSRCs, must still be accepted, and one distinct SSRC too many refused however it is reached.
pub fn fir_calls_vs_entries_space() -> CfgSpace {
    CfgSpace::new("fir-calls-versus-entries-at-the-limit", 4 * 3 + 2, move |idx| {
        let adds: Vec<(u32, u8)> = if idx >= 12 {
            // 40 000 / 70 000 calls over 16 SSRCs
            let calls = if idx == 12 { 40_000u32 } else { 70_000 };
            (0..calls).map(|i| (0x0200_0000 + (i % 16) * 0x0101, (i % 256) as u8)).collect()
        } else {
            let distinct = [32_765u32, 32_766, 32_766, 32_767][(idx % 4) as usize];
            let again = [1u32, 2, 300][(idx / 4) as usize] + if idx % 4 == 2 { 1000 } else { 0 };
            let mut a: Vec<(u32, u8)> = (0..distinct).map(|i| ((i << 16) ^ i.wrapping_mul(0x0001_0003), (i % 251) as u8)).collect();
            for j in 0..again {
                let i = (j * 7919) % distinct;
                a.push(((i << 16) ^ i.wrapping_mul(0x0001_0003), 0xEE));
            }
            a
        };
        Pkt::Fb { kind: Kind::Payload, sender: 1, media: 2, fci: Fci::Fir(adds), pad: 0 }
    })
}

/// NACK: one dense run of every length 1..=320 (where a burst fast path or a 17-wide packing loop changes gear),
/// from three starting points
pub fn nack_dense_run_space() -> CfgSpace {
    CfgSpace::new("nack-dense-runs-1-to-320", 320 * 3, |idx| {
        let len = (idx % 320) as u32 + 1;
        let a = [1000u32, 0, 65_536 - 320][(idx / 320) as usize];
        let a = a.min(65_536 - len);
        // added from the top down, so that insertion order is not the sorted order
        Pkt::Fb { kind: Kind::Transport, sender: 0x5E4D_3C2B, media: 0x1A2B_3C4D, fci: Fci::Nack((0..len).rev().map(|i| (a + i) as u16).collect()), pad: 0 }
    })
}

pub fn sli_spaces(_tier: Tier, _seed: u64) -> Vec<CfgSpace> {
    let w13 = u13_walk();
    let w6 = u6_walk();
    let (n13, n6) = (w13.len() as u64, w6.len() as u64);
    let mut v = Vec::new();
    let (a, b) = (w13.clone(), w6.clone());
    v.push(CfgSpace::new("sli-single-entry-walk-product", n13 * n13 * n6 * 2, move |idx| {
        let i = idx / 2;
        let e = (a[(i % n13) as usize], a[((i / n13) % n13) as usize], b[((i / n13 / n13) % n6) as usize]);
        fb_wrap(Kind::Payload, Fci::Sli(vec![e]), (idx % 2) * 24)
    }));
    // relations between neighbouring entries: the second starts where the first ends (or one before / after), with
    // the same or another picture id, each number zero or not, in both orders, alone and between two others
    v.push(CfgSpace::new("sli-neighbouring-runs", 3 * 2 * 2 * 2 * 2 * 3, |idx| {
        let d = [-1i32, 0, 1][(idx % 3) as usize];
        let same_pic = (idx / 3) % 2 == 0;
        let n1 = [5u16, 0][((idx / 6) % 2) as usize];
        let n2 = [7u16, 0][((idx / 12) % 2) as usize];
        let swap = (idx / 24) % 2 == 1;
        let ctx = idx / 48;
        let e1 = (100u16, n1, 9u8);
        let e2 = ((100 + n1 as i32 + d) as u16, n2, if same_pic { 9 } else { 10 });
        let mut v = if swap { vec![e2, e1] } else { vec![e1, e2] };
        match ctx {
            1 => {
                v.insert(0, (1, 1, 1));
                v.push((4000, 3, 2));
            }
            2 => v.push((100 + n1 + n2, 2, 9)),
            _ => {}
        }
        fb_wrap(Kind::Payload, Fci::Sli(v), 0)
    }));
    let alphabet: Vec<(u16, u16, u8)> = vec![(0, 0, 0), (0x1FFF, 0x1FFF, 0x3F), (1, 0, 0), (0, 1, 0), (0, 0, 1), (0x1000, 0x0FFF, 0x20), (0x0AAA, 0x1555, 0x2A), (0x1234, 0x0987, 0x25)];
    let na = alphabet.len() as u64;
    let n = seq_count(na, 3);
    v.push(CfgSpace::new("sli-lists-up-to-3", (n - 1) * 4, move |idx| {
        let s = seq_decode(na, 1 + idx / 4);
        fb_wrap(Kind::Payload, Fci::Sli(s.iter().map(|&x| alphabet[x as usize]).collect()), (idx % 4) * 24 + idx % 24)
    }));
    v
}

pub fn rpsi_lengths() -> Vec<usize> {
    let mut l: Vec<usize> = (0..=40).collect();
    l.extend_from_slice(&[255, 1021, 1022, 1023, 1024]);
    l
}

pub fn rpsi_spaces(_tier: Tier, _seed: u64) -> Vec<CfgSpace> {
    let lens = rpsi_lengths();
    let pts = [0u8, 1, 96, 127];
    let r = Radix::new(&[lens.len() as u64, 9, 4, 3, 4]);
    let rl = r.len();
    vec![CfgSpace::new("rpsi-length-x-ignored-bits", rl, move |idx| {
        let c = r.coords(idx);
        let n = lens[c[0] as usize];
        let mut overrun = c[1] as u8;
        if n == 0 {
            overrun = 0; // any ignored bit on an empty string is unrepresentable (C16's business)
        }
        let data: Vec<u8> = (0..n)
            .map(|i| match c[3] {
                0 => 0xFF,
                1 => 0xA5,
                _ => (i as u8).wrapping_mul(3).wrapping_add(1),
            })
            .collect();
        Pkt::Fb { kind: Kind::Payload, sender: 0x5E4D_3C2B, media: 0x1A2B_3C4D, fci: Fci::Rpsi { pt: pts[c[2] as usize], data, overrun }, pad: PAD_EDGE[c[4] as usize] }
    }),
    // every payload type 0..=127 (a value that reads like another constant of the crate must not matter)
    CfgSpace::new("rpsi-every-payload-type", 128 * 2, |idx| {
        let pt = (idx % 128) as u8;
        let data = if idx < 128 { vec![0xC3] } else { vec![pt, pt | 0x80, 0x00] };
        Pkt::Fb { kind: Kind::Payload, sender: 0x0000_00CE, media: 0x8000_00CE, fci: Fci::Rpsi { pt, data, overrun: 0 }, pad: 0 }
    }),
    // ignored-bit counts above 8, and payload types above 127, on strings of 0..=6 bytes: not representable - the
    // builder must refuse them, and the round trip shows it if it does not
    CfgSpace::new("rpsi-out-of-range-ignored-bits-and-types", 7 * 24 * 3, |idx| {
        let n = (idx % 7) as usize;
        let overrun = [9u8, 10, 12, 15, 16, 17, 23, 24, 25, 31, 32, 33, 40, 47, 48, 49, 56, 64, 100, 128, 200, 254, 255, 8][((idx / 7) % 24) as usize];
        let pt = [96u8, 128, 255][(idx / 168) as usize];
        let overrun = if pt == 96 { overrun } else { overrun.min(8) % 9 };
        Pkt::Fb { kind: Kind::Payload, sender: 1, media: 2, fci: Fci::Rpsi { pt, data: (0..n).map(|i| 0xF1u8.wrapping_add(i as u8)).collect(), overrun }, pad: 0 }
    })]
}

pub fn pli_spaces(_tier: Tier, _seed: u64) -> Vec<CfgSpace> {
    let pads = pad_all();
    vec![CfgSpace::new("pli-ssrc-x-padding", 8 * 8 * 64, move |idx| Pkt::Fb {
        kind: Kind::Payload,
        sender: U32_EDGE[(idx % 8) as usize],
        media: U32_EDGE[((idx / 8) % 8) as usize],
        fci: Fci::Pli,
        pad: pads[(idx / 64) as usize],
    })]
}

/// long entry lists: counts across every counter width, up to the largest representable packet
pub fn fb_large_spaces() -> Vec<CfgSpace> {
    let mut v = Vec::new();
    let mut sli_n = many_counts();
    sli_n.extend_from_slice(&[252, 253, 254, 508, 509, 510, 1021, 16_381, 16_383, 16_384, 65_532, 65_533]);
    let n = sli_n.len() as u64;
    v.push(CfgSpace::new("sli-long-lists", n * 2, move |idx| {
        let k = sli_n[(idx % n) as usize];
        let mut pad = if idx / n == 0 { 0u8 } else { 4 };
        if 12 + 4 * k + pad as usize > 262_144 {
            pad = 0;
        }
        let e = (0..k).map(|i| ((i * 37) as u16 & 0x1FFF, (i * 11 + 1) as u16 & 0x1FFF, (i % 64) as u8)).collect();
        Pkt::Fb { kind: Kind::Payload, sender: 0x5E4D_3C2B, media: 0x1A2B_3C4D, fci: Fci::Sli(e), pad }
    }));
    let mut fir_n = many_counts();
    fir_n.extend_from_slice(&[126, 127, 128, 254, 255, 256, 510, 8_190, 8_191, 8_192, 32_765, 32_766]);
    let n = fir_n.len() as u64;
    v.push(CfgSpace::new("fir-large-maps", n * 2, move |idx| {
        let k = fir_n[(idx % n) as usize];
        let mut pad = if idx / n == 0 { 0u8 } else { 4 };
        if 12 + 8 * k + pad as usize > 262_144 {
            pad = 0;
        }
        // distinct SSRCs, including 0 and values that differ only in their top byte
        let e = (0..k).map(|i| (((i as u32) << 24) ^ (i as u32).wrapping_mul(0x0001_0003), (i % 251) as u8)).collect();
        Pkt::Fb { kind: Kind::Payload, sender: 0x5E4D_3C2B, media: 0x1A2B_3C4D, fci: Fci::Fir(e), pad }
    }));
    let mut rl: Vec<usize> = (41..=48).collect();
    rl.extend(253..=260);
    rl.extend(1003..=1014);
    rl.extend(1019..=1030);
    rl.extend(2029..=2036);
    rl.extend(65_529..=65_540);
    rl.extend_from_slice(&[262_127, 262_128, 262_129, 262_130]);
    let n = rl.len() as u64;
    v.push(CfgSpace::new("rpsi-long-strings", n * 3, move |idx| {
        let k = rl[(idx % n) as usize];
        let overrun = [0u8, 5, 8][(idx / n) as usize];
        let data: Vec<u8> = (0..k).map(|i| (i as u8).wrapping_mul(5).wrapping_add(idx as u8) | 1).collect();
        Pkt::Fb { kind: Kind::Payload, sender: 0x5E4D_3C2B, media: 0x1A2B_3C4D, fci: Fci::Rpsi { pt: 96, data, overrun }, pad: 0 }
    }));
    // NACK lists of many words: k values spaced 17 and 18 apart (one word each), from three bases
    let mut nack_n = many_counts();
    nack_n.extend_from_slice(&[252, 253, 254, 508, 509, 510]);
    let n = nack_n.len() as u64;
    v.push(CfgSpace::new("nack-many-words", n * 2 * 3, move |idx| {
        let k = nack_n[(idx % n) as usize];
        let step = if (idx / n) % 2 == 0 { 17u32 } else { 18 };
        let base = [0u32, 0x1234, 0xFF00][(idx / n / 2) as usize];
        let seqs: Vec<u16> = (0..k as u32).rev().map(|i| (base + i * step) as u16).collect();
        Pkt::Fb { kind: Kind::Transport, sender: 0x5E4D_3C2B, media: 0x1A2B_3C4D, fci: Fci::Nack(seqs), pad: if idx % 3 == 0 { 4 } else { 0 } }
    }));
    v
}

/// every entry / word / byte count 0..=dense_bound for the four list-like FCI types (see `dense_bound`)
pub fn fb_dense_spaces(tier: Tier) -> Vec<CfgSpace> {
    let nd = dense_bound(tier) as u64 + 1;
    let mut v = Vec::new();
    // NACK of exactly k words: k numbers 17 (even k) or 19 (odd k) apart, every third with its successor as well
    // (one mask bit), added in descending order
    v.push(CfgSpace::new("nack-every-word-count", nd - 1, move |idx| {
        let k = idx as u32 + 1;
        let step = if k % 2 == 0 { 17u32 } else { 19 };
        let base = [0u32, 0x1234, 0xFF00, 0x7FF0][(k % 4) as usize];
        let mut seqs: Vec<u16> = Vec::with_capacity(k as usize * 2);
        for i in (0..k).rev() {
            seqs.push((base + i * step) as u16);
            if i % 3 == 0 {
                seqs.push((base + i * step + 1) as u16);
            }
        }
        // beyond 65536 / step numbers the run wraps onto itself; the set semantics stays well defined
        Pkt::Fb { kind: Kind::Transport, sender: 0x5E4D_3C2B, media: 0x1A2B_3C4D, fci: Fci::Nack(seqs), pad: if k % 5 == 0 { 4 } else { 0 } }
    }));
    v.push(CfgSpace::new("sli-every-entry-count", nd, move |idx| {
        let k = idx as usize;
        let e = (0..k).map(|i| ((i * 37 + k) as u16 & 0x1FFF, (i * 11 + 1) as u16 & 0x1FFF, ((i + k) % 64) as u8)).collect();
        Pkt::Fb { kind: Kind::Payload, sender: 0x5E4D_3C2B, media: 0x1A2B_3C4D, fci: Fci::Sli(e), pad: if k % 5 == 0 { 8 } else { 0 } }
    }));
    v.push(CfgSpace::new("fir-every-entry-count", nd, move |idx| {
        let k = idx as usize;
        let e = (0..k).map(|i| (((i as u32) << 24) ^ (i as u32).wrapping_mul(0x0001_0003), ((i + k) % 251) as u8)).collect();
        Pkt::Fb { kind: Kind::Payload, sender: 0x5E4D_3C2B, media: 0x1A2B_3C4D, fci: Fci::Fir(e), pad: if k % 5 == 0 { 4 } else { 0 } }
    }));
    // RPSI strings that end the packet without padding bits (2 + len a multiple of 4): every value of the last byte
    v.push(CfgSpace::new("rpsi-last-byte", 256 * 4, move |idx| {
        let n = [2usize, 6, 10, 254][(idx / 256) as usize];
        let mut data: Vec<u8> = (0..n).map(|i| (i as u8).wrapping_mul(3) | 0x40).collect();
        data[n - 1] = (idx % 256) as u8;
        Pkt::Fb { kind: Kind::Payload, sender: 0x5E4D_3C2B, media: 0x1A2B_3C4D, fci: Fci::Rpsi { pt: 96, data, overrun: 0 }, pad: 0 }
    }));
    v.push(CfgSpace::new("rpsi-every-length", nd * 2, move |idx| {
        let k = (idx / 2) as usize;
        let overrun = if k == 0 { 0 } else { [0u8, 3][(idx % 2) as usize] };
        let data: Vec<u8> = (0..k).map(|i| (i as u8).wrapping_mul(5).wrapping_add(k as u8) | 1).collect();
        Pkt::Fb { kind: Kind::Payload, sender: 0x5E4D_3C2B, media: 0x1A2B_3C4D, fci: Fci::Rpsi { pt: 96, data, overrun }, pad: 0 }
    }));
    v
}

pub fn fb_spaces(tier: Tier, seed: u64) -> Vec<CfgSpace> {
    let mut v = nack_spaces(tier, seed);
    v.extend(fir_spaces(tier, seed));
    v.extend(sli_spaces(tier, seed));
    v.extend(rpsi_spaces(tier, seed));
    v.extend(pli_spaces(tier, seed));
    v.extend(fb_large_spaces());
    v.extend(fb_dense_spaces(tier));
    // totals that reach a multiple of 64 words only through the padding: for every multiple M of 64 words up to 2304
    // and every legal padding p, a NACK of M - 3 - p/4 words (+0, +1): the length field's low byte carries because of
    // the trailer, not because of any count
    v.push(CfgSpace::new("nack-words-plus-padding-reach-multiples-of-64-words", 36 * 63 * 2, move |idx| {
        let m = 64 * ((idx % 36) as u32 + 1);
        let p = 4 * ((idx / 36) % 63) as u32 + 4;
        let k = ((m + (idx / (36 * 63)) as u32).saturating_sub(3 + p / 4)).max(1);
        let seqs: Vec<u16> = (0..k).map(|i| (i * 17) as u16).collect();
        Pkt::Fb { kind: Kind::Transport, sender: 0x5E4D_3C2B, media: 0x1A2B_3C4D, fci: Fci::Nack(seqs), pad: p as u8 }
    }));
    // the largest FIR lists with every padding that still fits, exactly fills, or overflows the packet
    v.push(CfgSpace::new("fir-at-the-size-limit-x-padding", 4 * 6, move |idx| {
        let k = [32_750u32, 32_764, 32_765, 32_766][(idx % 4) as usize];
        // a packet holds 262144 bytes at most: the padding is cut down to what still fits (oversize configurations are
        // C16's business, see known_findings.txt)
        let pad = ([0u32, 4, 8, 12, 132, 252][(idx / 4) as usize]).min(262_144 - 12 - 8 * k) as u8;
        let e = (0..k).map(|i| ((i << 24) ^ i.wrapping_mul(0x0001_0003), (i % 251) as u8)).collect();
        Pkt::Fb { kind: Kind::Payload, sender: 1, media: 2, fci: Fci::Fir(e), pad }
    }));
    // SSRCs that coincide: sender = media, a FIR entry about the sender / the media source / 0 / all ones, two FIR
    // entries that differ in one byte only
    v.push(CfgSpace::new("fb-coinciding-ssrcs", 6 * 6 * 5, move |idx| {
        let vals = [0u32, 0xFFFF_FFFF, 0x0102_0304, 0x0102_0305, 0x8000_0000, 0x0000_0100];
        let sender = vals[(idx % 6) as usize];
        let media = vals[((idx / 6) % 6) as usize];
        let fci = match idx / 36 {
            0 => Fci::Fir(vec![(sender, 1), (media, 2), (0, 3)]),
            1 => Fci::Fir(vec![(0x0102_0304, 9), (0x0102_0305, 9), (0x0103_0304, 9), (0x0202_0304, 9)]),
            2 => Fci::Nack(vec![sender as u16, media as u16, (sender >> 16) as u16]),
            3 => Fci::Sli(vec![((sender & 0x1FFF) as u16, (media & 0x1FFF) as u16, (sender & 0x3F) as u8)]),
            _ => Fci::Pli,
        };
        Pkt::Fb { kind: fci.kind(), sender, media, fci, pad: 0 }
    }));
    v.extend(fb_pattern_spaces());
    v.push(fir_many_then_readd_space());
    v.push(nack_dense_run_space());
    // all paddings on one instance of each FCI
    let pads = pad_all();
    v.push(CfgSpace::new("fb-each-fci-x-all-paddings", 5 * 64, move |idx| {
        let fci = match idx % 5 {
            0 => Fci::Nack(vec![5, 6, 40]),
            1 => Fci::Fir(vec![(0, 1), (0xFFFF_FFFF, 2)]),
            2 => Fci::Sli(vec![(1, 2, 3), (0x1FFF, 0, 0x3F)]),
            3 => Fci::Rpsi { pt: 100, data: vec![0xDE, 0xAD, 0xBE], overrun: 3 },
            _ => Fci::Pli,
        };
        Pkt::Fb { kind: fci.kind(), sender: 0x0000_0001, media: 0xFF00_0000, fci, pad: pads[(idx / 5) as usize] }
    }));
    v
}

// ------------------------------------------------------------------------------------------
// Unknown builder (C19 shares it)

pub fn unknown_spaces(tier: Tier, _seed: u64) -> Vec<CfgSpace> {
    let pts: Vec<u8> = tier.pick(vec![0, 192, 199, 200, 204, 207, 242, 255], (0..=255u8).collect());
    let pads = pad_all();
    let r = Radix::new(&[pts.len() as u64, 32, 5, 64]);
    let rl = r.len();
    let big: Vec<usize> = vec![252, 256, 260, 1016, 1020, 1024, 1028, 2040, 2044, 2048, 4092, 65_528, 65_532, 65_536, 65_540, 262_128, 262_136, 262_140];
    let nb = big.len() as u64;
    vec![
        CfgSpace::new("unknown-type-x-count-x-payload-x-padding", rl, move |idx| {
            let c = r.coords(idx);
            let n = (c[2] * 4) as usize;
            Pkt::Unknown { pt: pts[c[0] as usize], count: c[1] as u8, data: (0..n).map(|i| (i as u64 * 17 + idx) as u8).collect(), pad: pads[c[3] as usize] }
        }),
        // payloads that themselves begin with an RTCP header - of the packet's own type or another, with a length
        // field that spans the payload exactly, one word less, or one word more (a packet nested in a packet is just
        // payload)
        CfgSpace::new("unknown-payload-that-looks-like-a-packet", 4 * 4 * 3 * 4 * 2, move |idx| {
            let pt = [207u8, 192, 200, 255][(idx % 4) as usize];
            let inner_pt = [pt, 203, 207, 0][((idx / 4) % 4) as usize];
            let words = [1usize, 2, 5][((idx / 16) % 3) as usize];
            let lf = match (idx / 48) % 4 {
                0 => words - 1,
                1 => words,
                2 => words + 1,
                _ => words.saturating_sub(2),
            } as u16;
            let pad = if idx / 192 == 0 { 0u8 } else { 4 };
            let mut data = vec![0x80 | (idx % 32) as u8, inner_pt, (lf >> 8) as u8, lf as u8];
            for i in 1..words {
                data.extend_from_slice(&[0xA0 | i as u8, 1, 2, 3]);
            }
            Pkt::Unknown { pt, count: (idx % 32) as u8, data, pad }
        }),
        CfgSpace::new("unknown-large-payloads", nb * 3, move |idx| {
            let n = big[(idx % nb) as usize];
            let mut pad = [0u8, 4, 252][(idx / nb) as usize];
            if 4 + n + pad as usize > 262_144 {
                pad = (262_144 - 4 - n).min(252) as u8 & !3;
            }
            Pkt::Unknown { pt: [207u8, 0, 255][(idx % 3) as usize], count: (idx % 32) as u8, data: (0..n).map(|i| (i as u64 * 17 + idx) as u8).collect(), pad }
        }),
        CfgSpace::new("unknown-last-payload-byte", 256 * 6, move |idx| {
            let n = [4usize, 8, 12, 16, 252, 256][(idx / 256) as usize];
            let mut data: Vec<u8> = (0..n).map(|i| (i as u8).wrapping_mul(3) | 0x40).collect();
            data[n - 1] = (idx % 256) as u8;
            Pkt::Unknown { pt: 207, count: 1, data, pad: 0 }
        }),
        // every payload size 0, 4, 8 ... 4 * dense_bound bytes (see `dense_bound`)
        CfgSpace::new("unknown-every-payload-size", dense_bound(tier) as u64 + 1, move |idx| {
            let n = idx as usize * 4;
            Pkt::Unknown { pt: [207u8, 192, 255, 0][(idx % 4) as usize], count: (idx % 32) as u8, data: (0..n).map(|i| (i as u64 * 17 + idx) as u8).collect(), pad: [0u8, 8, 0][(idx % 3) as usize] }
        }),
    ]
}

/// Every builder-side configuration space (all of them produce representable configurations,
/// except where a PRIV length fell back — see above).
pub fn all_valid_spaces(tier: Tier, seed: u64) -> Vec<CfgSpace> {
    // the k=3 field-deviation space of the thorough tier belongs to C02/C09 (field values); the
    // properties that use this union are about sizes, buffers and layout, for which k=2 says it all
    let mut v = sr_rr_spaces(Tier::Quick, seed);
    v.extend(sdes_spaces(tier, seed));
    v.extend(bye_spaces(tier, seed));
    v.extend(app_spaces(tier, seed));
    v.extend(fb_spaces(tier, seed));
    v.extend(unknown_spaces(tier, seed));
    v
}

// ------------------------------------------------------------------------------------------
// W: the base set of small well-formed packets (as abstract configurations)

pub fn base_set() -> Vec<Pkt> {
    let mut w: Vec<Pkt> = Vec::new();
    let pads = [0u8, 4, 8];
    for &pad in &pads {
        for n in 0..=2usize {
            let blocks: Vec<Rb> = (0..n).map(|i| sentinel_rb(i, 0)).collect();
            w.push(Pkt::Sr { ssrc: 0x0102_0304, ntp: 0x1112_1314_1516_1718, rtp: 0x2122_2324, pc: 0x3132_3334, oc: 0x4142_4344, blocks: blocks.clone(), pad });
            w.push(Pkt::Rr { ssrc: 0x0102_0304, blocks, pad });
        }
        // SDES shapes
        let it = |ty: u8, v: &[u8]| Item::new(ty, v);
        let sdes_shapes: Vec<Vec<Chunk>> = vec![
            vec![],
            vec![Chunk { ssrc: 0x9182_7364, items: vec![] }],
            vec![Chunk { ssrc: 0x9182_7364, items: vec![it(1, b"")] }],
            vec![Chunk { ssrc: 0x9182_7364, items: vec![it(1, b"a")] }],
            vec![Chunk { ssrc: 0x9182_7364, items: vec![it(1, b"ab")] }],
            vec![Chunk { ssrc: 0x9182_7364, items: vec![it(1, b"abc")] }],
            vec![Chunk { ssrc: 0x9182_7364, items: vec![it(2, b"ab"), it(7, b"xyz")] }],
            vec![Chunk { ssrc: 0x9182_7364, items: vec![Item::priv_(b"p", b"v")] }],
            vec![Chunk { ssrc: 0x9182_7364, items: vec![Item::priv_(b"", b"")] }],
            vec![Chunk { ssrc: 0x9182_7364, items: vec![Item::priv_(b"pre", b"")] }],
            vec![Chunk { ssrc: 1, items: vec![it(1, b"a")] }, Chunk { ssrc: 0x0000_0100, items: vec![it(1, b"bc")] }],
            vec![Chunk { ssrc: 1, items: vec![] }, Chunk { ssrc: 0, items: vec![] }, Chunk { ssrc: 0x00FF_FFFF, items: vec![it(3, b"q")] }],
        ];
        for chunks in sdes_shapes {
            w.push(Pkt::Sdes { chunks, pad });
        }
        for n in 0..=2usize {
            for reason in ["", "x", "bye", "four", "hello"] {
                w.push(Pkt::Bye { ssrcs: (0..n).map(|i| 0x0A00_0000 + i as u32).collect(), reason: reason.to_string(), pad });
            }
        }
        for (name, dl) in [("name", 0usize), ("ab", 4), ("", 8)] {
            w.push(Pkt::App { ssrc: 0x0506_0708, subtype: 5, name: name.to_string(), data: (0..dl).map(|i| 0xD0 + i as u8).collect(), pad });
        }
        let fcis = vec![
            Fci::Nack(vec![5]),
            Fci::Nack(vec![5, 6, 21]),
            Fci::Nack(vec![5, 40]),
            Fci::Nack(vec![65535, 0]),
            Fci::Pli,
            Fci::Sli(vec![(1, 2, 3)]),
            Fci::Sli(vec![(0x1FFF, 0x1FFF, 0x3F), (0, 0, 0)]),
            Fci::Rpsi { pt: 96, data: vec![0xF0], overrun: 4 },
            Fci::Rpsi { pt: 96, data: vec![1, 2], overrun: 0 },
            Fci::Rpsi { pt: 0, data: vec![], overrun: 0 },
            Fci::Rpsi { pt: 127, data: vec![1, 2, 3, 4, 5], overrun: 8 },
            Fci::Fir(vec![(0xFEDC_BA98, 0x30)]),
            Fci::Fir(vec![(1, 1), (2, 2)]),
        ];
        for fci in fcis {
            w.push(Pkt::Fb { kind: fci.kind(), sender: 0x0908_0706, media: 0x0504_0302, fci, pad });
        }
        for (pt, count, dl) in [(207u8, 0u8, 0usize), (199, 31, 4), (0, 7, 8), (255, 1, 12)] {
            w.push(Pkt::Unknown { pt, count, data: (0..dl).map(|i| 0xE0 + i as u8).collect(), pad });
        }
    }
    w
}
