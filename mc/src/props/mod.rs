use crate::engine::run::Ctx;

pub mod bytes;
pub mod c01;
pub mod c19;
pub mod c20;
pub mod common;
pub mod fci15;
pub mod compound;
pub mod views;
pub mod framing;
pub mod gens;
pub mod roundtrip;
pub mod rules;
pub mod sdes10;
pub mod targets;
pub mod writers;

pub fn run(ctx: &mut Ctx) -> bool {
    match ctx.prop {
        "C01" => c01::c01(ctx),
        "C02" => roundtrip::c02(ctx),
        "C19" => c19::c19(ctx),
        "C20" => c20::c20(ctx),
        "C03" => roundtrip::c03(ctx),
        "C04" => roundtrip::c04(ctx),
        "C05" => roundtrip::c05(ctx),
        "C06" => writers::c06(ctx),
        "C07" => writers::c07(ctx),
        "C08" => framing::c08(ctx),
        "C09" => views::c09(ctx),
        "C10" => sdes10::c10(ctx),
        "C11" => compound::c11(ctx),
        "C12" => framing::c12(ctx),
        "C13" => views::c13(ctx),
        "C14" => compound::c14(ctx),
        "C18" => framing::c18(ctx),
        "C15" => fci15::c15(ctx),
        "C16" => writers::c16(ctx),
        "C17" => writers::c17(ctx),
        _ => return false,
    }
    true
}

pub const ALL: [&str; 20] = [
    "C01", "C02", "C03", "C04", "C05", "C06", "C07", "C08", "C09", "C10", "C11", "C12", "C13", "C14", "C15", "C16", "C17", "C18", "C19", "C20",
];
