//! C09 (zero-copy views return the wire bytes) and C13 (padding transparency).

use super::bytes;
use super::framing::{framing_spaces, TP};
use super::gens;
use crate::engine::guard;
use crate::engine::json::hex_short;
use crate::engine::run::{fp_bytes, Ctx, Local, Tier};
use crate::refmodel::model::*;
use crate::refmodel::read::{self, rd32, rd64};
use crate::refmodel::{repr, wire};
use crate::subject::observe;
use rtcp_types::prelude::*;
use rtcp_types::*;

/// `s` lies inside `input`; returns its offset. An empty slice is a sub-slice too when it points into the buffer (or
/// one past its end): "a sub-slice of the caller's input buffer" is said of every returned slice, and an empty slice
/// made from the input (`&data[k..k]`) satisfies it, one made from nothing (`&[]`) does not.
fn sub_slice_offset(input: &[u8], s: &[u8]) -> Result<usize, String> {
    if s.is_empty() {
        let (ib, ie) = (input.as_ptr() as usize, input.as_ptr() as usize + input.len());
        let sb = s.as_ptr() as usize;
        return if sb >= ib && sb <= ie { Ok(sb - ib) } else { Err("an empty slice that does not point into the caller's buffer".to_string()) };
    }
    let (ib, ie) = (input.as_ptr() as usize, input.as_ptr() as usize + input.len());
    let (sb, se) = (s.as_ptr() as usize, s.as_ptr() as usize + s.len());
    if sb >= ib && se <= ie {
        Ok(sb - ib)
    } else {
        Err(format!("slice of {} bytes lies outside the caller's buffer", s.len()))
    }
}

fn check_rb(l: &mut Local, who: &str, s: &[u8], base: usize, rb: &ReportBlock, idx: usize) {
    let b = &s[base..base + 24];
    let want = (rd32(b, 0), b[4], rd32(b, 4) & 0x00FF_FFFF, rd32(b, 8), rd32(b, 12), rd32(b, 16), rd32(b, 20));
    let got = (
        rb.ssrc(),
        rb.fraction_lost(),
        rb.cumulative_lost(),
        rb.extended_sequence_number(),
        rb.interarrival_jitter(),
        rb.last_sender_report_timestamp(),
        rb.delay_since_last_sender_report_timestamp(),
    );
    l.transitions += 7;
    if want != got {
        let names = ["ssrc", "fraction_lost", "cumulative_lost", "extended_sequence_number", "interarrival_jitter", "last_sender_report_timestamp", "delay_since_last_sender_report_timestamp"];
        let w = [want.0 as u64, want.1 as u64, want.2 as u64, want.3 as u64, want.4 as u64, want.5 as u64, want.6 as u64];
        let g = [got.0 as u64, got.1 as u64, got.2 as u64, got.3 as u64, got.4 as u64, got.5 as u64, got.6 as u64];
        let f = (0..7).find(|&i| w[i] != g[i]).unwrap();
        l.violation(format!("accessor-wrong:{}:report-block.{}", who, names[f]), || hex_short(s), || format!("block {}: {} returned {:#x}, the wire says {:#x}", idx, names[f], g[f], w[f]));
    }
}

macro_rules! scalar {
    ($l:expr, $who:expr, $s:expr, $name:expr, $got:expr, $want:expr) => {{
        $l.transitions += 1;
        let (g, w) = ($got as u64, $want as u64);
        if g != w {
            $l.violation(format!("accessor-wrong:{}:{}", $who, $name), || hex_short($s), || format!("{} returned {:#x}, the wire says {:#x}", $name, g, w));
        }
    }};
}

/// Compare every fixed-layout accessor with reference reads of `s`. `wellformed`: the string comes
/// from the reference encoder (or is classified well-formed), so range accessors are pinned too.
/// Returns the number of parsers that accepted.
pub fn check_views(l: &mut Local, s: &[u8], wellformed: bool, must_accept_pt: Option<u8>) -> u32 {
    let mut accepted = 0;
    let h = match read::header(s) {
        Some(h) => h,
        None => return 0,
    };
    let padn = if h.p { *s.last().unwrap() as usize } else { 0 };
    let c = h.count as usize;
    macro_rules! must {
        ($pt:expr, $r:expr, $name:expr) => {
            if must_accept_pt == Some($pt) {
                if let Err(e) = &$r {
                    l.violation(format!("well-formed-rejected:{}", $name), || hex_short(s), || format!("{:?}", e));
                }
            }
        };
    }
    // SR
    l.transitions += 1;
    let r = SenderReport::parse(s);
    must!(200, r, "SenderReport");
    if let Ok(sr) = r {
        accepted += 1;
        l.hit("accepted:SenderReport");
        scalar!(l, "SenderReport", s, "ssrc", sr.ssrc(), rd32(s, 4));
        scalar!(l, "SenderReport", s, "ntp_timestamp", sr.ntp_timestamp(), rd64(s, 8));
        scalar!(l, "SenderReport", s, "rtp_timestamp", sr.rtp_timestamp(), rd32(s, 16));
        scalar!(l, "SenderReport", s, "packet_count", sr.packet_count(), rd32(s, 20));
        scalar!(l, "SenderReport", s, "octet_count", sr.octet_count(), rd32(s, 24));
        scalar!(l, "SenderReport", s, "n_reports", sr.n_reports(), c);
        scalar!(l, "SenderReport", s, "padding", sr.padding().map(|p| p as u64 + 1).unwrap_or(0), if h.p { padn as u64 + 1 } else { 0 });
        let blocks: Vec<ReportBlock> = sr.report_blocks().take(40).collect();
        if blocks.len() != c {
            l.violation("accessor-wrong:SenderReport:report_blocks-count", || hex_short(s), || format!("{} blocks yielded, count field says {}", blocks.len(), c));
        } else {
            for (i, rb) in blocks.iter().enumerate() {
                check_rb(l, "SenderReport", s, 28 + 24 * i, rb, i);
            }
        }
    }
    // RR
    l.transitions += 1;
    let r = ReceiverReport::parse(s);
    must!(201, r, "ReceiverReport");
    if let Ok(rr) = r {
        accepted += 1;
        l.hit("accepted:ReceiverReport");
        scalar!(l, "ReceiverReport", s, "ssrc", rr.ssrc(), rd32(s, 4));
        scalar!(l, "ReceiverReport", s, "n_reports", rr.n_reports(), c);
        scalar!(l, "ReceiverReport", s, "padding", rr.padding().map(|p| p as u64 + 1).unwrap_or(0), if h.p { padn as u64 + 1 } else { 0 });
        let blocks: Vec<ReportBlock> = rr.report_blocks().take(40).collect();
        if blocks.len() != c {
            l.violation("accessor-wrong:ReceiverReport:report_blocks-count", || hex_short(s), || format!("{} blocks yielded, count field says {}", blocks.len(), c));
        } else {
            for (i, rb) in blocks.iter().enumerate() {
                check_rb(l, "ReceiverReport", s, 8 + 24 * i, rb, i);
            }
        }
    }
    // APP
    l.transitions += 1;
    let r = App::parse(s);
    must!(204, r, "App");
    if let Ok(a) = r {
        accepted += 1;
        l.hit("accepted:App");
        scalar!(l, "App", s, "ssrc", a.ssrc(), rd32(s, 4));
        scalar!(l, "App", s, "subtype", a.subtype(), c);
        scalar!(l, "App", s, "name", u32::from_be_bytes(a.name()), rd32(s, 8));
        {
            // the string accessor is the name field up to its first zero byte
            let raw: Vec<u8> = s[8..12].iter().copied().take_while(|&b| b != 0).collect();
            let want = String::from_utf8(raw).ok();
            l.transitions += 1;
            if a.get_name_string().ok() != want {
                l.violation("accessor-wrong:App:get_name_string", || hex_short(s), || format!("get_name_string() = {:?}, the name field reads {:?}", a.get_name_string(), want));
            }
            if a.header_data() != [s[0], s[1], s[2], s[3]] {
                l.violation("accessor-wrong:App:header_data", || hex_short(s), || format!("{:x?}", a.header_data()));
            }
        }
        scalar!(l, "App", s, "padding", a.padding().map(|p| p as u64 + 1).unwrap_or(0), if h.p { padn as u64 + 1 } else { 0 });
        l.transitions += 1;
        let d = a.data();
        match sub_slice_offset(s, d) {
            Err(m) => l.violation("slice-outside-input:App:data", || hex_short(s), || m.clone()),
            Ok(off) => {
                let well = wellformed || !h.p || (padn % 4 == 0 && padn <= s.len() - 12);
                if well {
                    let want_len = s.len() - 12 - padn;
                    if d.len() != want_len || (!d.is_empty() && off != 12) {
                        l.violation("accessor-wrong:App:data", || hex_short(s), || format!("data() is {} bytes at offset {}, the wire has {} bytes at offset 12", d.len(), off, want_len));
                    }
                }
            }
        }
    }
    // BYE
    l.transitions += 1;
    let r = Bye::parse(s);
    must!(203, r, "Bye");
    if let Ok(b) = r {
        accepted += 1;
        l.hit("accepted:Bye");
        scalar!(l, "Bye", s, "count", b.count(), c);
        scalar!(l, "Bye", s, "padding", b.padding().map(|p| p as u64 + 1).unwrap_or(0), if h.p { padn as u64 + 1 } else { 0 });
        l.transitions += 1;
        let ssrcs: Vec<u32> = b.ssrcs().take(40).collect();
        let want: Vec<u32> = (0..c).map(|i| rd32(s, 4 + 4 * i)).collect();
        if ssrcs != want {
            l.violation("accessor-wrong:Bye:ssrcs", || hex_short(s), || format!("ssrcs() = {:x?}, the wire says {:x?}", ssrcs, want));
        }
        l.transitions += 1;
        let reason = b.reason();
        {
            // the string accessor is the byte accessor, decoded
            let want = reason.map(|r| String::from_utf8(r.to_vec()).ok());
            l.transitions += 1;
            let got = b.get_reason_string().map(|r| r.ok());
            if got != want {
                l.violation("accessor-wrong:Bye:get_reason_string", || hex_short(s), || format!("get_reason_string() = {:?} while reason() = {:x?}", got, reason));
            }
            if b.header_data() != [s[0], s[1], s[2], s[3]] {
                l.violation("accessor-wrong:Bye:header_data", || hex_short(s), || format!("{:x?}", b.header_data()));
            }
        }
        if let Some(rs) = reason {
            if let Err(m) = sub_slice_offset(s, rs) {
                l.violation("slice-outside-input:Bye:reason", || hex_short(s), || m.clone());
            }
        }
        // the reference range, when the packet is well-formed: count*4+4 is where the length byte sits
        let o = 4 + 4 * c;
        let content_end = s.len().saturating_sub(padn);
        let pad_ok = !h.p || (padn % 4 == 0 && padn <= s.len() - 4);
        if pad_ok && o <= content_end {
            if o == content_end {
                if reason.is_some() && !reason.unwrap().is_empty() {
                    l.violation("accessor-wrong:Bye:reason", || hex_short(s), || format!("reason() = {:x?} although nothing follows the sources", reason));
                }
            } else {
                let rl = s[o] as usize;
                if o + 1 + rl <= content_end {
                    let want = &s[o + 1..o + 1 + rl];
                    let ok = match reason {
                        Some(rs) => rs == want && (rs.is_empty() || sub_slice_offset(s, rs) == Ok(o + 1)),
                        None => rl == 0, // a zero-length reason on the wire: None and Some(&[]) are both admitted
                    };
                    if !ok {
                        l.violation("accessor-wrong:Bye:reason", || hex_short(s), || format!("reason() = {:x?}, the wire has {:x?} at offset {}", reason, want, o + 1));
                    }
                }
            }
        }
    }
    // feedback
    l.transitions += 2;
    let r = TransportFeedback::parse(s);
    must!(205, r, "TransportFeedback");
    if let Ok(f) = r {
        accepted += 1;
        l.hit("accepted:TransportFeedback");
        scalar!(l, "TransportFeedback", s, "sender_ssrc", f.sender_ssrc(), rd32(s, 4));
        scalar!(l, "TransportFeedback", s, "media_ssrc", f.media_ssrc(), rd32(s, 8));
        scalar!(l, "TransportFeedback", s, "padding", f.padding().map(|p| p as u64 + 1).unwrap_or(0), if h.p { padn as u64 + 1 } else { 0 });
    }
    let r = PayloadFeedback::parse(s);
    must!(206, r, "PayloadFeedback");
    if let Ok(f) = r {
        accepted += 1;
        l.hit("accepted:PayloadFeedback");
        scalar!(l, "PayloadFeedback", s, "sender_ssrc", f.sender_ssrc(), rd32(s, 4));
        scalar!(l, "PayloadFeedback", s, "media_ssrc", f.media_ssrc(), rd32(s, 8));
        scalar!(l, "PayloadFeedback", s, "padding", f.padding().map(|p| p as u64 + 1).unwrap_or(0), if h.p { padn as u64 + 1 } else { 0 });
    }
    // unknown
    l.transitions += 1;
    let r = Unknown::parse(s);
    if must_accept_pt.is_some() {
        if let Err(e) = &r {
            l.violation("well-formed-rejected:Unknown", || hex_short(s), || format!("{:?}", e));
        }
    }
    if let Ok(u) = r {
        accepted += 1;
        l.hit("accepted:Unknown");
        let d = u.data();
        if d.as_ptr() != s.as_ptr() || d.len() != s.len() {
            l.violation("accessor-wrong:Unknown:data", || hex_short(s), || format!("data() is {} bytes, input {}", d.len(), s.len()));
        }
    }
    // a bare report block
    l.transitions += 1;
    if let Ok(rb) = ReportBlock::parse(s) {
        accepted += 1;
        l.hit("accepted:ReportBlock");
        check_rb(l, "ReportBlock", s, 0, &rb, 0);
    }
    accepted
}

pub fn c09(ctx: &mut Ctx) {
    ctx.rule = "(a) well-formed SR/RR/APP/BYE/feedback/unknown packets and bare report blocks from the independent encoder over the walk alphabets: must be accepted, every scalar accessor equals the big-endian read at the RFC offset, every range accessor equals the reference range, every returned slice is a sub-slice of the input at the expected offset; (b) every string of the framing spaces accepted by a fixed-layout parser: same scalar and containment checks, ranges where the string is well-formed; non-trivial = at least one parser accepted, distinct by fingerprint".into();
    ctx.bound("(a)", ctx.tier.pick("the C02/C04/C05/unknown configuration spaces (k<=2 deviations), encoded by the reference encoder", "same with the thorough spaces (k<=2 over 30 shapes, k<=3 over 4 shapes)"));
    ctx.bound("(b)", "framing spaces S1, S2 (k<=1 full, k=2 reduced alphabet), S5");
    let mut spaces = gens::sr_rr_spaces(ctx.tier, ctx.seed);
    spaces.extend(gens::bye_spaces(ctx.tier, ctx.seed));
    spaces.extend(gens::app_spaces(ctx.tier, ctx.seed));
    spaces.extend(gens::pli_spaces(ctx.tier, ctx.seed));
    spaces.extend(gens::sli_spaces(ctx.tier, ctx.seed));
    spaces.extend(gens::unknown_spaces(ctx.tier, ctx.seed));
    for sp in spaces {
        let get = &sp.get;
        ctx.run_space(&format!("wellformed:{}", sp.name), sp.len, |idx, l| {
            let p = get(idx);
            let typed_unknown = matches!(&p, Pkt::Unknown { pt, .. } if (200..=206).contains(pt));
            if typed_unknown || !repr::representable(&p) {
                return;
            }
            let img = wire::encode(&p);
            crate::placed!(l, img);
            l.evals += 1;
            l.states += 1;
            l.sample(|| hex_short(&img));
            let pt = img[1];
            let r = guard::catch(|| check_views(l, &img, true, Some(pt)));
            match r {
                Err(pi) => l.subject_panic("views", &pi, || hex_short(&img)),
                Ok(n) => {
                    l.validated += 1;
                    if n > 0 {
                        l.nontrivial(fp_bytes(&img));
                    }
                }
            }
        });
    }
    // bare report blocks over the walk alphabets (k <= 2 over the 7 fields)
    {
        let all = gens::sr_rr_spaces(ctx.tier, ctx.seed);
        let sp = all.iter().find(|s| s.name == "rb-fraction-x-cumulative").expect("the fraction x cumulative space exists");
        let get = &sp.get;
        ctx.run_space("wellformed:bare-report-block", sp.len, |idx, l| {
            if let Pkt::Sr { blocks, .. } | Pkt::Rr { blocks, .. } = get(idx) {
                let mut img = Vec::new();
                wire::encode_rb(&mut img, &blocks[1]);
                crate::placed!(l, img);
                l.evals += 1;
                l.states += 1;
                l.sample(|| hex_short(&img));
                l.transitions += 1;
                match guard::catch(|| ReportBlock::parse(&img).map(|rb| check_rb(l, "ReportBlock", &img, 0, &rb, 0))) {
                    Err(pi) => l.subject_panic("views:ReportBlock", &pi, || hex_short(&img)),
                    Ok(Err(e)) => l.violation("well-formed-rejected:ReportBlock", || hex_short(&img), || format!("{:?}", e)),
                    Ok(Ok(())) => {
                        l.validated += 1;
                        l.hit("accepted:ReportBlock");
                        l.nontrivial(fp_bytes(&img));
                    }
                }
            }
        });
    }
    // SR / RR carrying a profile-specific extension after their report blocks (RFC 3550 6.4.1 / 6.4.2): well-formed,
    // so they must be accepted, with exactly RC report blocks and all fields at their offsets
    {
        let ext_words = [1usize, 2, 5, 6, 7, 13];
        let counts = [0usize, 1, 2, 31];
        ctx.bound("profile-specific extensions", "SR / RR with {0,1,2,31} report blocks followed by an extension of {1,2,5,6,7,13} words, padding {0,4,24}");
        ctx.run_space("wellformed:sr-rr-with-profile-extension", (6 * 4 * 3 * 2) as u64, |idx, l| {
            let ew = ext_words[(idx % 6) as usize];
            let n = counts[((idx / 6) % 4) as usize];
            let pad = [0u8, 4, 24][((idx / 24) % 3) as usize];
            let blocks: Vec<Rb> = (0..n).map(|i| gens::sentinel_rb(i, 0x33)).collect();
            let p = if idx / 72 == 0 { Pkt::Sr { ssrc: 0x0102_0304, ntp: 0x1112_1314_1516_1718, rtp: 0x2122_2324, pc: 5, oc: 6, blocks, pad: 0 } } else { Pkt::Rr { ssrc: 0x0102_0304, blocks, pad: 0 } };
            let mut img = wire::encode(&p);
            for w in 0..ew {
                img.extend_from_slice(&[0xE0 | w as u8, 0x01, 0x02, 0x03 + w as u8]);
            }
            let words = (img.len() / 4 - 1) as u16;
            img[2] = (words >> 8) as u8;
            img[3] = words as u8;
            let img = if pad > 0 { wire::pad_packet(&img, pad) } else { img };
            crate::placed!(l, img);
            l.evals += 1;
            l.states += 1;
            l.sample(|| hex_short(&img));
            let pt = img[1];
            match guard::catch(|| check_views(l, &img, true, Some(pt))) {
                Err(pi) => l.subject_panic("views", &pi, || hex_short(&img)),
                Ok(k) => {
                    l.validated += 1;
                    if k > 0 {
                        l.nontrivial(fp_bytes(&img));
                    }
                }
            }
            // and as the only packet of a datagram
            match guard::catch(|| Compound::parse(&img).map(|mut c| c.next().map(|r| r.is_ok()))) {
                Err(pi) => l.subject_panic("views:Compound", &pi, || hex_short(&img)),
                Ok(Ok(Some(true))) => l.hit("extension-carrying report accepted through a compound"),
                Ok(other) => l.violation("well-formed-rejected:report-with-extension-in-compound", || hex_short(&img), || format!("{:?}", other)),
            }
            // however report_blocks() is driven (nth, last, count, fold ...), it yields the blocks plain next() calls
            // yield, which check_views has just compared with the wire: the extension is not a block
            super::common::all_iterator_histories(l, img, 2);
        });
    }
    // iterator call histories: report_blocks() of SR / RR and ssrcs() of BYE driven through every sequence of
    // next / nth / take-count calls up to a depth, then collect / count / last, against the item list that plain
    // next() calls give (which the spaces above compare with the wire)
    {
        let counts = [0usize, 1, 2, 3, 4, 9, 31];
        let depth = ctx.tier.pick(3u32, 4u32);
        ctx.bound("iterator histories", format!("report_blocks() / ssrcs() of packets with {{0,1,2,3,4,9,31}} entries x padding {{0,8}}: all call sequences of length <= {} over {{next, nth(0), nth(1), nth(2), nth(7), take(2).count()}} x 10 endings, size_hint() after every call", depth));
        ctx.run_space("iterator-histories", (counts.len() * 2 * 3) as u64, |idx, l| {
            let n = counts[(idx as usize / 6) % counts.len()];
            let pad = if (idx / 3) % 2 == 0 { 0u8 } else { 8 };
            let blocks: Vec<Rb> = (0..n).map(|i| gens::sentinel_rb(i, 0x55)).collect();
            let p = match idx % 3 {
                0 => Pkt::Sr { ssrc: 1, ntp: 2, rtp: 3, pc: 4, oc: 5, blocks, pad },
                1 => Pkt::Rr { ssrc: 1, blocks, pad },
                _ => Pkt::Bye { ssrcs: (0..n as u32).map(|i| 0x0100_0000 * (i + 1) + i).collect(), reason: "bye".into(), pad },
            };
            let img = wire::encode(&p);
            crate::placed!(l, img);
            l.evals += 1;
            l.sample(|| format!("iterator histories on {}", hex_short(&img)));
            l.nontrivial(fp_bytes(&img));
            let show = || hex_short(&img);
            let r = guard::catch(|| match idx % 3 {
                0 => {
                    let sr = SenderReport::parse(&img).map_err(|e| format!("{:?}", e))?;
                    let reference = super::common::iterator_reference(sr.report_blocks(), 64);
                    if reference.len() != n {
                        return Err(format!("report_blocks() yields {} blocks, the packet has {}", reference.len(), n));
                    }
                    super::common::iterator_histories(l, "SenderReport::report_blocks", &|| sr.report_blocks(), &reference, depth, &show);
                    Ok(())
                }
                1 => {
                    let rr = ReceiverReport::parse(&img).map_err(|e| format!("{:?}", e))?;
                    let reference = super::common::iterator_reference(rr.report_blocks(), 64);
                    if reference.len() != n {
                        return Err(format!("report_blocks() yields {} blocks, the packet has {}", reference.len(), n));
                    }
                    super::common::iterator_histories(l, "ReceiverReport::report_blocks", &|| rr.report_blocks(), &reference, depth, &show);
                    Ok(())
                }
                _ => {
                    let b = Bye::parse(&img).map_err(|e| format!("{:?}", e))?;
                    let reference = super::common::iterator_reference(b.ssrcs(), 64);
                    if reference.len() != n {
                        return Err(format!("ssrcs() yields {} sources, the packet has {}", reference.len(), n));
                    }
                    super::common::iterator_histories(l, "Bye::ssrcs", &|| b.ssrcs(), &reference, depth, &show);
                    Ok(())
                }
            });
            match r {
                Err(pi) => l.subject_panic("iterator-history", &pi, show),
                Ok(Err(m)) => l.violation("iterator-history:setup", show, || m),
                Ok(Ok(())) => {}
            }
        });
        ctx.require_hit("iterator history agrees with repeated next()");
    }
    for sp in framing_spaces(ctx.tier) {
        let lim = if sp.name.contains("giant") { 0 } else { bytes::cross_limit(ctx) };
        let name = format!("arbitrary:{}", sp.name);
        sp.run(ctx, &name, lim, |buf, l| {
            l.evals += 1;
            l.states += 1;
            l.sample(|| hex_short(&buf));
            // the field readers behind every accessor, also on slices that run past the leading packet
            super::common::header_field_readers_case(l, &buf);
            match guard::catch(|| check_views(l, &buf, false, None)) {
                Err(pi) => l.subject_panic("views", &pi, || hex_short(&buf)),
                Ok(n) => {
                    if n > 0 {
                        l.validated += 1;
                        l.nontrivial(fp_bytes(&buf));
                    }
                }
            }
        });
    }
    // well-formed packets are always accepted - also when they arrive many in one datagram: every tile count up to
    // gens::dense_bound, each tile handed out as what the generic parser makes of it, with its views checked
    {
        let nd = gens::dense_bound(ctx.tier);
        ctx.bound("(a) in datagrams", format!("datagrams of every count 1..={} of well-formed fixed-layout packets: accepted by Compound::parse, every tile yielded Ok and equal to Packet::parse of the tile, views checked on every 16th tile", nd));
        let sp = bytes::dense_chain_space(nd);
        let get = &sp.get;
        ctx.run_space("wellformed:datagrams-of-every-tile-count", nd as u64, |idx, l| {
            let mut buf = Vec::new();
            get(idx * 4, &mut buf); // the exactly tiled member of each group of four tails
            l.evals += 1;
            l.states += 1;
            l.sample(|| hex_short(&buf));
            let tiles = crate::refmodel::read::tile(&buf).expect("the space makes exact tilings");
            let r = guard::catch(|| -> Result<(), String> {
                let c = Compound::parse(&buf).map_err(|e| format!("Compound::parse = {:?}", e))?;
                let mut k = 0usize;
                for item in c.take(tiles.len() + 2) {
                    let (a, b) = *tiles.get(k).ok_or("more items than tiles")?;
                    let p = item.map_err(|e| format!("tile {} of {}: {:?}", k, tiles.len(), e))?;
                    let alone = Packet::parse(&buf[a..b]).map_err(|e| format!("Packet::parse of tile {}: {:?}", k, e))?;
                    if !super::framing::packet_results_equal(&Ok(p), &Ok(alone)) {
                        return Err(format!("tile {} of {} differs from Packet::parse of its bytes", k, tiles.len()));
                    }
                    k += 1;
                }
                if k != tiles.len() {
                    return Err(format!("{} items for {} tiles", k, tiles.len()));
                }
                Ok(())
            });
            l.transitions += tiles.len() as u64 + 1;
            l.validated += 1;
            match r {
                Err(pi) => l.subject_panic("datagram-of-wellformed-packets", &pi, || format!("{} tiles", tiles.len())),
                Ok(Err(m)) => l.violation("wellformed-rejected:in-a-datagram", || format!("{} well-formed tiles: {}", tiles.len(), hex_short(&buf)), || m),
                Ok(Ok(())) => {
                    l.hit("datagram of well-formed packets accepted tile by tile");
                    l.nontrivial(fp_bytes(&buf));
                    for (a, b) in tiles.iter().step_by(16) {
                        let _ = check_views(l, &buf[*a..*b], false, None);
                    }
                }
            }
        });
    }
    // ... and when the datagram is large: mid-size well-formed packets whose total passes 65507, 65536 and 262144 bytes
    {
        let sp = bytes::big_chain_space();
        let n = sp.len / 4; // the exactly tiled quarter of the space
        let get = &sp.get;
        ctx.bound("(a) in large datagrams", "datagrams of 1100 / 1400 / 4000 / 24000-byte well-formed packets whose total crosses 65507, 65536 and 262144 bytes: accepted, every tile yielded Ok");
        ctx.run_space("wellformed:large-datagrams", n, |idx, l| {
            let mut buf = Vec::new();
            get(idx, &mut buf);
            l.evals += 1;
            l.states += 1;
            l.sample(|| format!("{} bytes", buf.len()));
            let tiles = crate::refmodel::read::tile(&buf).expect("the space makes exact tilings");
            let r = guard::catch(|| -> Result<(), String> {
                let c = Compound::parse(&buf).map_err(|e| format!("Compound::parse = {:?}", e))?;
                let mut k = 0usize;
                for item in c.take(tiles.len() + 2) {
                    let (a, b) = *tiles.get(k).ok_or("more items than tiles")?;
                    let p = item.map_err(|e| format!("tile {} of {} (offset {}): {:?}", k, tiles.len(), a, e))?;
                    let alone = Packet::parse(&buf[a..b]).map_err(|e| format!("Packet::parse of tile {}: {:?}", k, e))?;
                    if !super::framing::packet_results_equal(&Ok(p), &Ok(alone)) {
                        return Err(format!("tile {} of {} differs from Packet::parse of its bytes", k, tiles.len()));
                    }
                    k += 1;
                }
                if k != tiles.len() {
                    return Err(format!("{} items for {} tiles", k, tiles.len()));
                }
                Ok(())
            });
            l.transitions += tiles.len() as u64 + 1;
            l.validated += 1;
            match r {
                Err(pi) => l.subject_panic("datagram-of-wellformed-packets", &pi, || format!("{} tiles, {} bytes", tiles.len(), buf.len())),
                Ok(Err(m)) => l.violation("wellformed-rejected:in-a-datagram", || format!("{} well-formed tiles, {} bytes", tiles.len(), buf.len()), || m),
                Ok(Ok(())) => l.hit("datagram of well-formed packets accepted tile by tile"),
            }
        });
    }
    for k in ["accepted:SenderReport", "accepted:ReceiverReport", "accepted:App", "accepted:Bye", "accepted:TransportFeedback", "accepted:PayloadFeedback", "accepted:Unknown", "accepted:ReportBlock"] {
        ctx.require_hit(k);
    }
    let _ = (TP::Sr, bytes::HEADER_PTS);
}

// ---------------------------------------------------------------------------------------------
// C13

fn unpadded_bases(tier: Tier, seed: u64) -> Vec<Pkt> {
    let mut v: Vec<Pkt> = gens::base_set().into_iter().filter(|p| p.pad() == 0).collect();
    let per_space = tier.pick(400u64, 6000u64);
    for sp in gens::all_valid_spaces(tier, seed) {
        let stride = (sp.len / per_space).max(1);
        let mut i = (seed % stride.max(1)).min(sp.len.saturating_sub(1));
        while i < sp.len {
            let mut p = (sp.get)(i);
            p.set_pad(0);
            let typed_unknown = matches!(&p, Pkt::Unknown { pt, .. } if (200..=206).contains(pt));
            if repr::representable(&p) && !typed_unknown && wire::encoded_len(&p) + 252 <= repr::MAX_PACKET_BYTES && wire::encoded_len(&p) <= 4096 {
                v.push(p);
            }
            i += stride;
        }
    }
    v
}

/// The accessors whose answers the abstract observation flattens: `Option`s (a BYE reason that is absent is not a
/// reason that is empty) and the string forms.
fn extra_observation(bytes: &[u8]) -> String {
    match Packet::parse(bytes) {
        Ok(Packet::Bye(b)) => format!("reason={:?} string={:?}", b.reason(), b.get_reason_string()),
        Ok(Packet::App(a)) => format!("name={:?} string={:?}", a.name(), a.get_name_string()),
        Ok(Packet::Sr(x)) => format!("n_reports={}", x.n_reports()),
        Ok(Packet::Rr(x)) => format!("n_reports={}", x.n_reports()),
        _ => String::new(),
    }
}

fn transparency_case(l: &mut Local, img: &[u8], n: u8, name: &str, type_name: &str, prefix: &str) {
    let padded = wire::pad_packet(img, n);
    // the two strings are handed over at different address residues (engine::place)
    let img = img.to_vec();
    crate::placed!(l, img);
    crate::placed!(l, padded, 3);
    l.evals += 1;
    l.states += 1;
    l.sample(|| format!("{} + padding {}", hex_short(img), n));
    l.transitions += 2;
    let r = guard::catch(|| (observe::parse_and_observe(img), observe::parse_and_observe(padded)));
    match r {
        Err(pi) => l.subject_panic(&format!("{}parse-padded:{}", prefix, name), &pi, || format!("{} + padding {}", hex_short(img), n)),
        Ok((Err(e), _)) => {
            // not C13's business (C09/C10 demand acceptance of well-formed packets); counted
            let _ = e;
            l.hit("unpadded packet not parsed (other properties' domain)");
        }
        Ok((Ok(plain), padded_obs)) => {
            l.validated += 1;
            l.nontrivial(fp_bytes(&padded));
            match padded_obs {
                Err(e) => l.violation(format!("{}padded-rejected:{}", prefix, type_name), || format!("{} + padding {}", hex_short(img), n), || format!("{:?}", e)),
                Ok(mut po) => {
                    if po.pad() != n {
                        l.violation(format!("{}padding-accessor-wrong:{}", prefix, type_name), || format!("{} + padding {}", hex_short(img), n), || format!("padding() reports {}", po.pad()));
                    }
                    po.set_pad(0);
                    // both observations decode the same content bytes, so exact equality is demanded
                    if po != plain {
                        let f = super::common::diff_field(&po, &plain);
                        l.violation(
                            format!("{}content-changed-by-padding:{}:{}", prefix, name, f),
                            || format!("{} + padding {}", hex_short(img), n),
                            || format!("unpadded: {} padded: {}", plain.short(), po.short()),
                        );
                    } else {
                        l.hit(if prefix.is_empty() { "transparent" } else { "transparent (parser-accepted shape)" });
                        // a padded packet is what ends a datagram: taken as a compound of one packet it must be
                        // accepted just the same and show the same content
                        l.transitions += 1;
                        let via = guard::catch(|| -> Result<(), String> {
                            let mut c = Compound::parse(&padded).map_err(|e| format!("Compound::parse = {:?}", e))?;
                            let first = c.next().ok_or("the compound yields nothing")?.map_err(|e| format!("the compound yields {:?}", e))?;
                            let mut o2 = observe::obs_packet(&first, padded.len()).map_err(|e| format!("{:?}", e))?;
                            if o2.pad() != n {
                                return Err(format!("through the compound padding() reports {}", o2.pad()));
                            }
                            o2.set_pad(0);
                            if o2 != plain {
                                return Err(format!("through the compound the content reads {}", o2.short()));
                            }
                            Ok(())
                        });
                        // ... and a padded packet followed by another packet (legal on the wire): both come out
                        l.transitions += 1;
                        let follow = guard::catch(|| -> Result<(), String> {
                            // three followers: the datagram ends in 0x01, in 0x00 and in 0xFF (the last octet of the
                            // datagram is not the padding count of a member that is not last)
                            for last in [0x01u8, 0x00, 0xFF] {
                                let mut two = padded.to_vec();
                                two.extend_from_slice(&[0x81, 203, 0, 1, 0xAB, 0xCD, 0xEF, last]);
                                let two = crate::engine::place::place(&mut two, (n as usize / 4 + padded.len()) % 8);
                                let c = Compound::parse(two).map_err(|e| format!("Compound::parse = {:?} (follower ending in {:02x})", e, last))?;
                                let items: Vec<_> = c.take(4).collect();
                                if items.len() != 2 || items.iter().any(|r| r.is_err()) {
                                    return Err(format!("padded packet + BYE ending in {:02x} iterates as {:?}", last, items.iter().map(|r| r.as_ref().map(|_| "packet").map_err(|e| format!("{:?}", e))).collect::<Vec<_>>()));
                                }
                                let mut o2 = observe::obs_packet(items[0].as_ref().unwrap(), padded.len()).map_err(|e| format!("{:?}", e))?;
                                o2.set_pad(0);
                                if o2 != plain {
                                    return Err(format!("followed by another packet the content reads {}", o2.short()));
                                }
                            }
                            Ok(())
                        });
                        match follow {
                            Err(pi) => l.subject_panic(&format!("{}parse-padded-then-bye:{}", prefix, name), &pi, || format!("{} + padding {}", hex_short(img), n)),
                            Ok(Err(m)) => l.violation(format!("{}padded-packet-followed-by-another:{}", prefix, type_name), || format!("{} + padding {}", hex_short(img), n), || m),
                            Ok(Ok(())) => {}
                        }
                        // the unknown-packet parser is a parser too: it accepts the unpadded bytes of any type (they are
                        // well framed), so it must accept the padded ones and expose them unchanged
                        match guard::catch(|| (Unknown::parse(img).is_ok(), Unknown::parse(&padded).map(|u| u.data().len() == padded.len()))) {
                            Err(pi) => l.subject_panic(&format!("{}Unknown::parse-padded:{}", prefix, name), &pi, || format!("{} + padding {}", hex_short(img), n)),
                            Ok((true, Ok(true))) | Ok((false, _)) => {}
                            Ok((true, other)) => l.violation(format!("{}padded-rejected-by-Unknown::parse:{}", prefix, type_name), || format!("{} + padding {}", hex_short(img), n), || format!("{:?}", other)),
                        }
                        // what the abstract observation cannot show: absent vs empty (BYE reason), the string accessors
                        let fine = guard::catch(|| extra_observation(img) == extra_observation(&padded));
                        match fine {
                            Err(pi) => l.subject_panic(&format!("{}accessors-of-padded:{}", prefix, name), &pi, || format!("{} + padding {}", hex_short(img), n)),
                            Ok(false) => l.violation(format!("{}content-changed-by-padding:{}:optional-or-string-accessor", prefix, name), || format!("{} + padding {}", hex_short(img), n), || format!("unpadded: {} padded: {}", extra_observation(img), extra_observation(&padded))),
                            Ok(true) => {}
                        }
                        match via {
                            Err(pi) => l.subject_panic(&format!("{}parse-padded-as-compound:{}", prefix, name), &pi, || format!("{} + padding {}", hex_short(img), n)),
                            Ok(Err(m)) => l.violation(format!("{}padded-not-transparent-through-Compound::parse:{}", prefix, type_name), || format!("{} + padding {}", hex_short(img), n), || m),
                            Ok(Ok(())) => {}
                        }
                    }
                }
            }
        }
    }
}

pub fn c13(ctx: &mut Ctx) {
    ctx.rule = "every unpadded well-formed packet of the base set W and of a stride through every configuration space (encoded by the reference encoder) x every legal padding 4..=252 applied by the reference padder (P bit, enlarged length, zeros, count); the padded packet must be accepted by the same parser, report the padding, and every content accessor (report blocks, SDES chunks/items, BYE sources/reason, APP payload, FCI entries of all five types) must return what it returns for the unpadded packet; non-trivial = the unpadded packet parses, distinct by fingerprint of the padded image".into();
    ctx.bound("paddings", "all 63 values 4..=252");
    ctx.bound("packets", ctx.tier.pick("W (unpadded part) + ~400 per configuration space", "W + ~6000 per configuration space"));
    let bases = unpadded_bases(ctx.tier, ctx.seed);
    let nb = bases.len() as u64;
    let images: Vec<Vec<u8>> = bases.iter().map(wire::encode).collect();
    ctx.run_space("padding-transparency", nb * 63, |idx, l| {
        let b = (idx / 63) as usize;
        let n = (4 * (idx % 63 + 1)) as u8;
        transparency_case(l, &images[b], n, &bases[b].builder_name(), bases[b].type_name(), "");
    });
    // reports carrying a profile-specific extension (well-formed, never written by the crate's builders)
    {
        let mut ext_imgs: Vec<(Vec<u8>, &'static str)> = Vec::new();
        for sr in [true, false] {
            for n in [0usize, 1, 2] {
                for ew in [1usize, 6, 7] {
                    let blocks: Vec<Rb> = (0..n).map(|i| gens::sentinel_rb(i, 0x44)).collect();
                    let p = if sr { Pkt::Sr { ssrc: 1, ntp: 2, rtp: 3, pc: 4, oc: 5, blocks, pad: 0 } } else { Pkt::Rr { ssrc: 1, blocks, pad: 0 } };
                    let mut img = wire::encode(&p);
                    for w in 0..ew {
                        img.extend_from_slice(&[0xE0 | w as u8, 1, 2, 3]);
                    }
                    let words = (img.len() / 4 - 1) as u16;
                    img[2] = (words >> 8) as u8;
                    img[3] = words as u8;
                    ext_imgs.push((img, if sr { "Sr" } else { "Rr" }));
                }
            }
        }
        // BYE whose reason is present with length zero (a length byte 0 and three fill bytes): legal, never written by
        // the crate's builder; whatever reason() answers for it, padding must not change the answer
        for n in [0u8, 1, 2, 31] {
            let mut img = vec![0x80 | n, 203, 0, n + 1];
            for i in 0..n {
                img.extend_from_slice(&[0x10 + i, 2, 3, 4]);
            }
            img.extend_from_slice(&[0, 0, 0, 0]);
            ext_imgs.push((img, "Bye"));
        }
        ctx.bound("reports with extensions", "SR / RR with {0,1,2} blocks and a profile-specific extension of {1,6,7} words, BYE with an explicit zero-length reason, x all 63 paddings");
        ctx.run_space("padding-transparency-reports-with-extension", ext_imgs.len() as u64 * 63, |idx, l| {
            let (img, ty) = &ext_imgs[(idx / 63) as usize];
            transparency_case(l, img, (4 * (idx % 63 + 1)) as u8, "report-with-extension", ty, "");
        });
    }
    // padding requested from the crate's own builders (both API flavours; the builders set the padding before the
    // content): the packet they write must equally be accepted, report the amount and show the unpadded content
    {
        let bpads: [u8; 3] = [4, 12, 252];
        ctx.bound("builder-made padding", "every base packet built by the crate's builder with padding {4,12,252}, borrowed and owned API flavour, compared with the unpadded reference image");
        ctx.run_space("padding-requested-from-the-builder", nb * 6, |idx, l| {
            let b = (idx / 6) as usize;
            let n = bpads[(idx % 3) as usize];
            let owned = (idx / 3) % 2 == 1;
            let mut cfg = bases[b].clone();
            cfg.set_pad(n);
            l.evals += 1;
            l.states += 1;
            l.sample(|| format!("{} built with padding {} ({})", cfg.short(), n, if owned { "owned" } else { "borrowed" }));
            // odd bases: the padding is requested after the content, with the builder queried after every call
            let flavour = crate::subject::build::Variant { pad_last: b % 2 == 1, probe: b % 2 == 1, ..crate::subject::build::Variant::new(owned, crate::subject::build::Wrap::None) };
            let built = match super::common::build_bytes(l, "builder-padded", &cfg, flavour) {
                Some(super::common::Built::Bytes(b)) => b,
                _ => {
                    l.hit("builder refused or failed (other properties' domain)");
                    return;
                }
            };
            l.transitions += 2;
            crate::placed!(l, built);
            let r = guard::catch(|| (observe::parse_and_observe(&images[b]), observe::parse_and_observe(built)));
            let name = bases[b].builder_name();
            let show = || format!("{} built with padding {} ({}): {}", cfg.short(), n, if owned { "owned" } else { "borrowed" }, hex_short(&built));
            match r {
                Err(pi) => l.subject_panic(&format!("parse-builder-padded:{}", name), &pi, show),
                Ok((Err(_), _)) => l.hit("unpadded packet not parsed (other properties' domain)"),
                Ok((Ok(plain), Err(e))) => {
                    let _ = plain;
                    l.violation(format!("builder-padded-rejected:{}", bases[b].type_name()), show, || format!("{:?}", e))
                }
                Ok((Ok(plain), Ok(mut po))) => {
                    l.validated += 1;
                    if po.pad() != n {
                        l.violation(format!("builder-padded:padding-accessor-wrong:{}", bases[b].type_name()), show, || format!("padding() reports {}", po.pad()));
                    }
                    po.set_pad(0);
                    if !observe::same_observation(&po, &plain) {
                        let f = super::common::diff_field(&po, &plain);
                        l.violation(format!("builder-padded:content-changed-by-padding:{}:{}", name, f), show, || format!("unpadded: {} padded: {}", plain.short(), po.short()));
                    } else {
                        l.hit("transparent (builder-made padding)");
                    }
                }
            }
        });
        ctx.require_hit("transparent (builder-made padding)");
    }
    // large packets: where the padded size crosses 65 536 bytes (a 16-bit byte count or shifted word count wraps)
    // and up to the 262 144-byte maximum
    {
        let mut big: Vec<Pkt> = Vec::new();
        for total in [65_280usize, 65_532, 65_536, 65_540, 131_072, 261_888] {
            big.push(Pkt::App { ssrc: 0x0A0B_0C0D, subtype: 9, name: "big!".into(), data: (0..total - 12).map(|i| (i / 4) as u8 ^ 0x5A).collect(), pad: 0 });
            big.push(Pkt::Unknown { pt: 211, count: 7, data: (0..total - 4).map(|i| (i / 4) as u8 ^ 0xA5).collect(), pad: 0 });
            big.push(Pkt::Fb { kind: Kind::Payload, sender: 1, media: 2, fci: Fci::Sli((0..(total - 12) / 4).map(|i| ((i * 37) as u16 & 0x1FFF, (i * 11 + 1) as u16 & 0x1FFF, (i % 64) as u8)).collect()), pad: 0 });
            big.push(Pkt::Fb { kind: Kind::Transport, sender: 1, media: 2, fci: Fci::Nack((0..((total - 12) / 4) as u32).map(|i| (i * 17) as u16).collect::<std::collections::BTreeSet<u16>>().into_iter().collect()), pad: 0 });
            let items = vec![Item::new(1, &[b'x'; 250])];
            big.push(Pkt::Sdes { chunks: vec![Chunk { ssrc: 0x0100_0000, items: (0..(total / 252).min(1000)).map(|_| items[0].clone()).collect() }], pad: 0 });
        }
        let mut big: Vec<(Vec<u8>, String, &'static str)> = big.iter().filter(|p| repr::representable(p)).map(|p| (wire::encode(p), p.builder_name(), p.type_name())).collect();
        // generic NACKs as raw images (a list of sequence numbers cannot need more than 3856 entries, a packet on
        // the wire can carry any number of them): 12 + 4n bytes of content around and beyond 65 536 bytes
        for n in [16_379usize, 16_380, 16_381, 16_382, 16_384, 32_768, 65_000] {
            let mut img = vec![0x81u8, 205, 0, 0, 0, 0, 0, 1, 0, 0, 0, 2];
            for i in 0..n {
                let pid = (i as u32 * 17) as u16;
                img.extend_from_slice(&[(pid >> 8) as u8, pid as u8, (i % 7) as u8, (i % 5) as u8]);
            }
            let words = img.len() / 4 - 1;
            img[2] = (words >> 8) as u8;
            img[3] = words as u8;
            big.push((img, "TransportFeedbackBuilder".to_string(), "TransportFeedback"));
        }
        let pads: [u8; 4] = [4, 8, 128, 252];
        ctx.bound("large packets", "APP / unknown / SLI / NACK / SDES packets of about 65280..261888 bytes and raw generic NACK images of 16379..65000 entries x paddings {4,8,128,252} (where the padded packet still fits 262144 bytes)");
        ctx.run_space("padding-transparency-large", big.len() as u64 * 4, |idx, l| {
            let (img, name, ty) = &big[(idx / 4) as usize];
            let n = pads[(idx % 4) as usize];
            if img.len() + n as usize > 262_144 {
                l.evals += 1;
                l.hit("(padded packet would exceed the maximum size)");
                return;
            }
            transparency_case(l, img, n, name, ty, "");
        });
    }
    // Shapes the parser accepts although RFC 3550 does not call them well-formed (an SDES chunk whose items end
    // on a 32-bit boundary without a terminator - the repository's own parse_cname_sdes vector is one -, a bare
    // SSRC, a count field that disagrees with the chunks): the conditional form of the property is checked on
    // them - IF the unpadded string is accepted THEN every padded version is accepted with the same content.
    // A strict parser (rejects the unpadded string) and a lenient one both pass; only a parser whose verdict
    // on the content changes with the padding fails.
    let a5 = vec![0x00u8, 0x01, 0x02, 0x08, 0xFF];
    let lenient_pads: [u8; 5] = [4, 8, 12, 24, 252];
    for sp in [bytes::sdes_bodies_space(1, vec![0x00u8, 0x01, 0x02, 0x03, 0x04, 0x08, 0x09, 0xFF], vec![0, 1, 2]), bytes::sdes_bodies_space(2, a5, vec![1, 2])] {
        let get = &sp.get;
        ctx.run_space(&format!("accepted-shapes:{}", sp.name), (sp.len / 2) * 5, |idx, l| {
            let mut buf = Vec::with_capacity(16);
            get((idx / 5) * 2, &mut buf); // even indices: P = 0
            transparency_case(l, &buf, lenient_pads[(idx % 5) as usize], "Sdes(parser-accepted shape)", "Sdes", "accepted-shape:");
        });
    }
    ctx.require_hit("transparent");
    ctx.require_hit("transparent (parser-accepted shape)");
}
