//! C02-C05: build -> parse round trips. One oracle (common::roundtrip_case), four families of spaces.

use super::common::{roundtrip_case, run_cfg_spaces};
use super::gens;
use crate::engine::run::{Ctx, Tier};
use crate::refmodel::model::*;
use crate::subject::build::{Variant, Wrap};

fn setup(ctx: &mut Ctx, what: &str) {
    ctx.rule = format!(
        "{}; a case is one builder configuration, addressed by its index in a product / k-deviation space, built twice: once plainly and once with the intermediate builder queried (calculate_size + a scratch write_into) after every single builder call (and with the other of the owned/borrowed API flavours); non-trivial = the builder accepted it and produced bytes, distinct by fingerprint of those bytes",
        what
    );
    ctx.assume("field values outside the walk / edge alphabets of DESIGN.md section 1.2 are not explored");
    ctx.assume("the crate is compiled with overflow-checks and debug-assertions, opt-level 3");
}

pub fn c02(ctx: &mut Ctx) {
    setup(ctx, "SR/RR: k-deviation product over all scalar fields and the seven fields of one distinguished block (walk alphabets), every block count x every legal padding, full product fraction-lost x cumulative-lost");
    ctx.bound("deviations", ctx.tier.pick("k<=2 over 12 shapes", "k<=2 over 30 shapes (block count, distinguished block, padding, SR/RR) and k<=3 over 4 shapes"));
    ctx.bound("blocks", "0..=31");
    ctx.bound("padding", "all 64 legal values");
    let spaces = gens::sr_rr_spaces(ctx.tier, ctx.seed);
    run_cfg_spaces(ctx, spaces, |p, _, l| {
        roundtrip_case(l, "roundtrip", p, Variant::PLAIN);
        // the same configuration built with a size query and a scratch write after every builder call
        roundtrip_case(l, "roundtrip-probed", p, Variant { reset: true, ..Variant::PROBED });
        roundtrip_case(l, "roundtrip-padding-set-last", p, Variant { pad_last: true, ..Variant::PROBED });
        if l.cur_idx % 3 == 0 {
            super::common::illegal_padding_set_late(l, p);
        }
    });
    super::common::roundtrip_iterator_histories(ctx, gens::sr_rr_spaces(Tier::Quick, ctx.seed), 60, 3);
    ctx.require_hit("round-trip-equal");
}

pub fn c03(ctx: &mut Ctx) {
    setup(ctx, "SDES: all pairs of value lengths 0..=255 for two items (several type pairs incl. PRIV), chunk-boundary residues x following SSRCs with leading zero bytes, 0..=31 chunks, maximal lengths, short last items at every distance from the end");
    ctx.bound("value lengths", "0..=255 squared");
    ctx.bound("chunks", "0..=31");
    let spaces = gens::sdes_spaces(ctx.tier, ctx.seed);
    run_cfg_spaces(ctx, spaces, |p, idx, l| {
        // alternate the borrowed and the owned item APIs so both writers' inputs are covered
        let var = Variant::new(idx % 5 == 4, Wrap::None);
        roundtrip_case(l, "roundtrip", p, var);
        roundtrip_case(l, "roundtrip-probed", p, Variant { probe: true, reset: true, cow: idx % 3 == 0, pad_last: idx % 2 == 1, owned: idx % 5 != 4 && idx % 3 != 0, wrap: Wrap::None });
        if idx % 3 == 0 {
            super::common::illegal_padding_set_late(l, p);
        }
    });
    super::common::roundtrip_iterator_histories(ctx, gens::sdes_spaces(Tier::Quick, ctx.seed), 40, 3);
    ctx.require_hit("round-trip-equal");
}

pub fn c04(ctx: &mut Ctx) {
    setup(ctx, "BYE: full product sources 0..=31 x reason length 0..=255 x all 64 paddings; APP: SSRC x subtype 0..=31 x names of 0..=4 bytes x payload sizes x all paddings");
    ctx.bound("bye", "32 x 256 x 64 complete");
    ctx.bound("app ssrc", ctx.tier.pick("edge alphabet (8)", "walk alphabet (79)"));
    let mut spaces = gens::bye_spaces(ctx.tier, ctx.seed);
    spaces.extend(gens::app_spaces(ctx.tier, ctx.seed));
    run_cfg_spaces(ctx, spaces, |p, idx, l| {
        let var = Variant::new(idx % 7 == 3, Wrap::None);
        roundtrip_case(l, "roundtrip", p, var);
        roundtrip_case(l, "roundtrip-probed", p, Variant { probe: true, reset: true, cow: idx % 3 == 0, pad_last: idx % 2 == 1, owned: idx % 7 != 3 && idx % 3 != 0, wrap: Wrap::None });
        if idx % 3 == 0 {
            super::common::illegal_padding_set_late(l, p);
        }
    });
    super::common::roundtrip_iterator_histories(ctx, gens::bye_spaces(Tier::Quick, ctx.seed), 60, 3);
    ctx.require_hit("round-trip-equal");
}

pub fn c05(ctx: &mut Ctx) {
    setup(ctx, "feedback: NACK all subsets of a window at 4 bases + structured triples/strides/full set; FIR all add-sequences; SLI walk product and short lists; RPSI every length x ignored bits; PLI; both builder flavours");
    ctx.bound("nack window", ctx.tier.pick("18 values (2^18 subsets) x 4 bases", "22 values (2^22 subsets) x 4 bases"));
    ctx.bound("fir", ctx.tier.pick("add-sequences up to depth 4 over 15 symbols", "up to depth 5"));
    let mut spaces = gens::fb_spaces(ctx.tier, ctx.seed);
    // the empty FIR / SLI lists (builders accept them; see known_findings.txt F2)
    spaces.push(gens::CfgSpace::new("fb-empty-entry-lists", 4, |idx| {
        let fci = if idx % 2 == 0 { Fci::Fir(vec![]) } else { Fci::Sli(vec![]) };
        Pkt::Fb { kind: Kind::Payload, sender: 1, media: 2, fci, pad: if idx < 2 { 0 } else { 4 } }
    }));
    // FIR maps around the largest entry count a packet can carry (32 766): whatever the builder accepts there must
    // still parse back
    spaces.push(gens::CfgSpace::new("fb-fir-at-the-size-limit", 5, |idx| {
        let k = 32_764 + idx as u32;
        let e = (0..k).map(|i| ((i << 24) ^ i.wrapping_mul(0x0001_0003), (i % 251) as u8)).collect();
        Pkt::Fb { kind: Kind::Payload, sender: 1, media: 2, fci: Fci::Fir(e), pad: 0 }
    }));
    spaces.push(gens::fir_calls_vs_entries_space());
    run_cfg_spaces(ctx, spaces, |p, idx, l| {
        let var = Variant::new(idx % 2 == 1, Wrap::None);
        roundtrip_case(l, "roundtrip", p, var);
        roundtrip_case(l, "roundtrip-probed", p, Variant { probe: true, reset: true, cow: idx % 3 == 0, pad_last: (idx / 2) % 2 == 1, owned: idx % 2 == 0 && idx % 3 != 0, wrap: Wrap::None });
        if idx % 3 == 0 {
            super::common::illegal_padding_set_late(l, p);
        }
    });
    super::common::roundtrip_iterator_histories(ctx, gens::fb_spaces(Tier::Quick, ctx.seed), 25, 3);
    ctx.require_hit("round-trip-equal");
}
