//! Oracle pieces shared by several properties.

use super::gens::{self, CfgSpace};
use crate::engine::guard;
use crate::engine::json::hex_short;
use crate::engine::run::{fp_bytes, Ctx, Local, Tier};
use crate::refmodel::model::*;
use crate::refmodel::repr::WErr;
use crate::refmodel;
use crate::subject::build::{self, DynW, Variant};
use crate::subject::observe::{self, ObsErr};
use rtcp_types::prelude::*;

/// Self-test of the reference model over the quick configuration spaces (strided) and W.
pub fn refmodel_roundtrip_selftest() -> Result<usize, String> {
    let mut n = 0;
    for p in gens::base_set() {
        refmodel::roundtrip_ok(&p)?;
        n += 1;
    }
    for sp in gens::all_valid_spaces(Tier::Quick, 0) {
        let stride = (sp.len / 3000).max(1);
        let mut i = 0;
        while i < sp.len {
            let p = (sp.get)(i);
            let typed_unknown = matches!(&p, Pkt::Unknown { pt, .. } if (200..=206).contains(pt));
            if crate::refmodel::repr::representable(&p) && !typed_unknown {
                refmodel::roundtrip_ok(&p).map_err(|e| format!("{}[{}]: {}", sp.name, i, e))?;
                n += 1;
            }
            i += stride;
        }
    }
    Ok(n)
}

/// Name of the first field in which two observations differ (for violation keys).
pub fn diff_field(a: &Pkt, b: &Pkt) -> &'static str {
    if std::mem::discriminant(a) != std::mem::discriminant(b) {
        return "packet-type";
    }
    if a.pad() != b.pad() {
        return "padding";
    }
    match (a, b) {
        (Pkt::Sr { ssrc: s1, ntp: n1, rtp: r1, pc: p1, oc: o1, blocks: b1, .. }, Pkt::Sr { ssrc: s2, ntp: n2, rtp: r2, pc: p2, oc: o2, blocks: b2, .. }) => {
            if s1 != s2 {
                "ssrc"
            } else if n1 != n2 {
                "ntp"
            } else if r1 != r2 {
                "rtp"
            } else if p1 != p2 {
                "packet-count"
            } else if o1 != o2 {
                "octet-count"
            } else if b1.len() != b2.len() {
                "block-count"
            } else if b1 != b2 {
                "report-block"
            } else {
                "none"
            }
        }
        (Pkt::Rr { ssrc: s1, blocks: b1, .. }, Pkt::Rr { ssrc: s2, blocks: b2, .. }) => {
            if s1 != s2 {
                "ssrc"
            } else if b1.len() != b2.len() {
                "block-count"
            } else if b1 != b2 {
                "report-block"
            } else {
                "none"
            }
        }
        (Pkt::Sdes { chunks: c1, .. }, Pkt::Sdes { chunks: c2, .. }) => {
            if c1.len() != c2.len() {
                "chunk-count"
            } else if c1.iter().zip(c2).any(|(x, y)| x.ssrc != y.ssrc) {
                "chunk-ssrc"
            } else if c1 != c2 {
                "items"
            } else {
                "none"
            }
        }
        (Pkt::Bye { ssrcs: s1, reason: r1, .. }, Pkt::Bye { ssrcs: s2, reason: r2, .. }) => {
            if s1 != s2 {
                "sources"
            } else if r1 != r2 {
                "reason"
            } else {
                "none"
            }
        }
        (Pkt::App { ssrc: s1, subtype: t1, name: n1, data: d1, .. }, Pkt::App { ssrc: s2, subtype: t2, name: n2, data: d2, .. }) => {
            if s1 != s2 {
                "ssrc"
            } else if t1 != t2 {
                "subtype"
            } else if n1 != n2 {
                "name"
            } else if d1 != d2 {
                "data"
            } else {
                "none"
            }
        }
        (Pkt::Fb { kind: k1, sender: s1, media: m1, fci: f1, .. }, Pkt::Fb { kind: k2, sender: s2, media: m2, fci: f2, .. }) => {
            if k1 != k2 {
                "kind"
            } else if s1 != s2 {
                "sender-ssrc"
            } else if m1 != m2 {
                "media-ssrc"
            } else if f1 != f2 {
                "fci"
            } else {
                "none"
            }
        }
        (Pkt::Unknown { pt: t1, count: c1, data: d1, .. }, Pkt::Unknown { pt: t2, count: c2, data: d2, .. }) => {
            if t1 != t2 {
                "type"
            } else if c1 != c2 {
                "count"
            } else if d1 != d2 {
                "data"
            } else {
                "none"
            }
        }
        _ => "packet-type",
    }
}

pub enum Built {
    Rejected(WErr),
    Bytes(Vec<u8>),
}

/// calculate_size + write_into an exactly sized, 0xA5-prefilled buffer; panics and announced/written
/// disagreement are reported under `site`.
pub fn build_bytes(l: &mut Local, site: &str, p: &Pkt, var: Variant) -> Option<Built> {
    let mut out: Option<Built> = None;
    let r = guard::catch(|| {
        build::with_writer(p, var, &mut |w| {
            l.transitions += 1;
            match w.calculate_size() {
                Err(e) => out = Some(Built::Rejected(build::werr(e))),
                Ok(n) => {
                    let mut buf = vec![0xA5u8; n];
                    l.transitions += 1;
                    match DynW(w).write_into(&mut buf) {
                        Ok(m) if m == n => out = Some(Built::Bytes(buf)),
                        Ok(m) => {
                            l.violation(format!("{}:{}:written-differs-from-announced", site, p.builder_name()), || p.short(), || format!("calculate_size() = {}, write_into() returned {}", n, m));
                        }
                        Err(e) => {
                            l.violation(format!("{}:{}:write-fails-after-size-ok", site, p.builder_name()), || p.short(), || format!("calculate_size() = {}, write_into() = Err({:?})", n, e));
                        }
                    }
                }
            }
        })
    });
    if let Err(pi) = r {
        l.subject_panic(&format!("{}:{}", site, p.builder_name()), &pi, || p.short());
        return None;
    }
    out
}

/// The round-trip oracle of C02-C05: the builder's bytes, parsed by the crate, give back the configuration.
pub fn roundtrip_case(l: &mut Local, prop_site: &str, p: &Pkt, var: Variant) {
    l.evals += 1;
    l.states += 1;
    l.sample(|| p.short());
    let built = match build_bytes(l, prop_site, p, var) {
        Some(b) => b,
        None => return,
    };
    let bytes = match built {
        Built::Rejected(_) => {
            l.hit("builder-rejected (outside this property)");
            return;
        }
        Built::Bytes(b) => b,
    };
    l.hit("builder-accepted");
    l.nontrivial(fp_bytes(&bytes));
    let expected = observe::expected_observation(p);
    l.transitions += 1;
    let obs = guard::catch(|| observe::parse_and_observe(&bytes));
    l.validated += 1;
    let name = p.builder_name();
    let empty_list = matches!(p, Pkt::Fb { fci: Fci::Fir(v), .. } if v.is_empty()) || matches!(p, Pkt::Fb { fci: Fci::Sli(v), .. } if v.is_empty());
    match obs {
        Err(pi) => l.subject_panic(&format!("{}:parse:{}", prop_site, name), &pi, || format!("{} -> {}", p.short(), hex_short(&bytes))),
        Ok(Err(ObsErr::Parse(e))) => l.violation(format!("{}:{}:parser-rejects-built-packet", prop_site, name), || format!("{} -> {}", p.short(), hex_short(&bytes)), || format!("{:?}", e)),
        Ok(Err(ObsErr::Fci(e))) => {
            let key = if empty_list { format!("empty-fci-roundtrip:{}", fci_name(p)) } else { format!("{}:{}:fci-parser-rejects-built-fci", prop_site, name) };
            l.violation(key, || format!("{} -> {}", p.short(), hex_short(&bytes)), || format!("parse_fci: {:?}", e))
        }
        Ok(Err(e)) => l.violation(format!("{}:{}:observation-failed", prop_site, name), || format!("{} -> {}", p.short(), hex_short(&bytes)), || format!("{:?}", e)),
        Ok(Ok(mut o)) => {
            // FirBuilder's HashMap order is the one uncontrolled choice in the subject: canonicalise it away
            if let Pkt::Fb { fci: Fci::Fir(v), .. } = &mut o {
                v.sort();
            }
            if observe::same_observation(&o, &expected) {
                l.hit("round-trip-equal");
            } else {
                let f = diff_field(&o, &expected);
                l.violation(
                    format!("{}:{}:mismatch:{}", prop_site, name, f),
                    || format!("{} -> {}", p.short(), hex_short(&bytes)),
                    || format!("parsed view differs in {}: expected {} observed {}", f, expected.short(), o.short()),
                );
            }
        }
    }
}

pub fn fci_name(p: &Pkt) -> &'static str {
    match p {
        Pkt::Fb { fci, .. } => fci.name(),
        _ => "-",
    }
}

pub fn run_cfg_spaces(ctx: &mut Ctx, spaces: Vec<CfgSpace>, f: impl Fn(&Pkt, u64, &mut Local) + Sync) {
    for sp in spaces {
        let get = &sp.get;
        ctx.run_space(&sp.name, sp.len, |idx, l| {
            let p = get(idx);
            f(&p, idx, l);
        });
    }
}
