//! Oracle pieces shared by several properties.

use super::gens::{self, CfgSpace};
use crate::engine::guard;
use crate::engine::json::hex_short;
use crate::engine::run::{fp_bytes, Ctx, Local, Tier};
use crate::refmodel::model::*;
use crate::refmodel::repr::WErr;
use crate::refmodel;
use crate::subject::build::{self, DynW, Variant};
use crate::subject::observe::{self, ObsErr};
use rtcp_types::prelude::*;

/// Self-test of the reference model over the quick configuration spaces (strided) and W.
pub fn refmodel_roundtrip_selftest() -> Result<usize, String> {
    let mut n = 0;
    for p in gens::base_set() {
        refmodel::roundtrip_ok(&p)?;
        n += 1;
    }
    for sp in gens::all_valid_spaces(Tier::Quick, 0) {
        let stride = (sp.len / 3000).max(1);
        let mut i = 0;
        while i < sp.len {
            let p = (sp.get)(i);
            let typed_unknown = matches!(&p, Pkt::Unknown { pt, .. } if (200..=206).contains(pt));
            if crate::refmodel::repr::representable(&p) && !typed_unknown {
                refmodel::roundtrip_ok(&p).map_err(|e| format!("{}[{}]: {}", sp.name, i, e))?;
                n += 1;
            }
            i += stride;
        }
    }
    Ok(n)
}

/// Name of the first field in which two observations differ (for violation keys).
pub fn diff_field(a: &Pkt, b: &Pkt) -> &'static str {
    if std::mem::discriminant(a) != std::mem::discriminant(b) {
        return "packet-type";
    }
    if a.pad() != b.pad() {
        return "padding";
    }
    match (a, b) {
        (Pkt::Sr { ssrc: s1, ntp: n1, rtp: r1, pc: p1, oc: o1, blocks: b1, .. }, Pkt::Sr { ssrc: s2, ntp: n2, rtp: r2, pc: p2, oc: o2, blocks: b2, .. }) => {
            if s1 != s2 {
                "ssrc"
            } else if n1 != n2 {
                "ntp"
            } else if r1 != r2 {
                "rtp"
            } else if p1 != p2 {
                "packet-count"
            } else if o1 != o2 {
                "octet-count"
            } else if b1.len() != b2.len() {
                "block-count"
            } else if b1 != b2 {
                "report-block"
            } else {
                "none"
            }
        }
        (Pkt::Rr { ssrc: s1, blocks: b1, .. }, Pkt::Rr { ssrc: s2, blocks: b2, .. }) => {
            if s1 != s2 {
                "ssrc"
            } else if b1.len() != b2.len() {
                "block-count"
            } else if b1 != b2 {
                "report-block"
            } else {
                "none"
            }
        }
        (Pkt::Sdes { chunks: c1, .. }, Pkt::Sdes { chunks: c2, .. }) => {
            if c1.len() != c2.len() {
                "chunk-count"
            } else if c1.iter().zip(c2).any(|(x, y)| x.ssrc != y.ssrc) {
                "chunk-ssrc"
            } else if c1 != c2 {
                "items"
            } else {
                "none"
            }
        }
        (Pkt::Bye { ssrcs: s1, reason: r1, .. }, Pkt::Bye { ssrcs: s2, reason: r2, .. }) => {
            if s1 != s2 {
                "sources"
            } else if r1 != r2 {
                "reason"
            } else {
                "none"
            }
        }
        (Pkt::App { ssrc: s1, subtype: t1, name: n1, data: d1, .. }, Pkt::App { ssrc: s2, subtype: t2, name: n2, data: d2, .. }) => {
            if s1 != s2 {
                "ssrc"
            } else if t1 != t2 {
                "subtype"
            } else if n1 != n2 {
                "name"
            } else if d1 != d2 {
                "data"
            } else {
                "none"
            }
        }
        (Pkt::Fb { kind: k1, sender: s1, media: m1, fci: f1, .. }, Pkt::Fb { kind: k2, sender: s2, media: m2, fci: f2, .. }) => {
            if k1 != k2 {
                "kind"
            } else if s1 != s2 {
                "sender-ssrc"
            } else if m1 != m2 {
                "media-ssrc"
            } else if f1 != f2 {
                "fci"
            } else {
                "none"
            }
        }
        (Pkt::Unknown { pt: t1, count: c1, data: d1, .. }, Pkt::Unknown { pt: t2, count: c2, data: d2, .. }) => {
            if t1 != t2 {
                "type"
            } else if c1 != c2 {
                "count"
            } else if d1 != d2 {
                "data"
            } else {
                "none"
            }
        }
        _ => "packet-type",
    }
}

pub enum Built {
    Rejected(WErr),
    Bytes(Vec<u8>),
}

/// calculate_size + write_into an exactly sized, 0xA5-prefilled buffer; panics and announced/written
/// disagreement are reported under `site`.
pub fn build_bytes(l: &mut Local, site: &str, p: &Pkt, var: Variant) -> Option<Built> {
    let mut out: Option<Built> = None;
    let r = guard::catch(|| {
        build::with_writer(p, var, &mut |w| {
            l.transitions += 1;
            let mut first = w.calculate_size();
            if let Err(e) = &first {
                // a refusal must stand: the same builder asked again (size, then a write into a large buffer) must
                // refuse again; if it now accepts, the configuration counts as accepted and what it writes is judged
                let again = w.calculate_size();
                let mut big = crate::engine::place::OutBuf::new(4096, |_| 0xA5);
                let wr = DynW(w).write_into(&mut big);
                if again.is_ok() || wr.is_ok() {
                    l.violation(format!("{}:{}:refused-then-accepted", site, p.builder_name()), || p.short(), || format!("calculate_size() = Err({:?}), then calculate_size() = {:?} and write_into() = {:?} on the same builder", e, again, wr));
                    first = w.calculate_size();
                }
            }
            match first {
                Err(e) => out = Some(Built::Rejected(build::werr(e))),
                Ok(n) => {
                    let mut buf = crate::engine::place::OutBuf::new(n, |_| 0xA5);
                    l.transitions += 1;
                    match DynW(w).write_into(&mut buf) {
                        Ok(m) if m == n => out = Some(Built::Bytes(buf.into_vec())),
                        Ok(m) => {
                            l.violation(format!("{}:{}:written-differs-from-announced", site, p.builder_name()), || p.short(), || format!("calculate_size() = {}, write_into() returned {}", n, m));
                        }
                        Err(e) => {
                            l.violation(format!("{}:{}:write-fails-after-size-ok", site, p.builder_name()), || p.short(), || format!("calculate_size() = {}, write_into() = Err({:?})", n, e));
                        }
                    }
                }
            }
        })
    });
    if let Err(pi) = r {
        l.subject_panic(&format!("{}:{}", site, p.builder_name()), &pi, || p.short());
        return None;
    }
    out
}

/// The round-trip oracle of C02-C05: the builder's bytes, parsed by the crate, give back the configuration.
pub fn roundtrip_case(l: &mut Local, prop_site: &str, p: &Pkt, var: Variant) {
    l.evals += 1;
    l.states += 1;
    l.sample(|| p.short());
    let built = match build_bytes(l, prop_site, p, var) {
        Some(b) => b,
        None => return,
    };
    let bytes = match built {
        Built::Rejected(_) => {
            l.hit("builder-rejected (outside this property)");
            return;
        }
        Built::Bytes(b) => b,
    };
    l.hit("builder-accepted");
    l.nontrivial(fp_bytes(&bytes));
    let expected = observe::expected_observation(p);
    l.transitions += 1;
    // read back at a rotating address residue (engine::place)
    crate::placed!(l, bytes);
    let obs = guard::catch(|| observe::parse_and_observe(bytes));
    l.validated += 1;
    let name = p.builder_name();
    let empty_list = matches!(p, Pkt::Fb { fci: Fci::Fir(v), .. } if v.is_empty()) || matches!(p, Pkt::Fb { fci: Fci::Sli(v), .. } if v.is_empty());
    match obs {
        Err(pi) => l.subject_panic(&format!("{}:parse:{}", prop_site, name), &pi, || format!("{} -> {}", p.short(), hex_short(&bytes))),
        Ok(Err(ObsErr::Parse(e))) => l.violation(format!("{}:{}:parser-rejects-built-packet", prop_site, name), || format!("{} -> {}", p.short(), hex_short(&bytes)), || format!("{:?}", e)),
        Ok(Err(ObsErr::Fci(e))) => {
            let key = if empty_list { format!("empty-fci-roundtrip:{}", fci_name(p)) } else { format!("{}:{}:fci-parser-rejects-built-fci", prop_site, name) };
            l.violation(key, || format!("{} -> {}", p.short(), hex_short(&bytes)), || format!("parse_fci: {:?}", e))
        }
        Ok(Err(e)) => l.violation(format!("{}:{}:observation-failed", prop_site, name), || format!("{} -> {}", p.short(), hex_short(&bytes)), || format!("{:?}", e)),
        Ok(Ok(mut o)) => {
            // FirBuilder's HashMap order is the one uncontrolled choice in the subject: canonicalise it away
            if let Pkt::Fb { fci: Fci::Fir(v), .. } = &mut o {
                v.sort();
            }
            if observe::same_observation(&o, &expected) {
                l.hit("round-trip-equal");
                // the same bytes taken as a datagram: a compound of this one packet must be accepted and hand
                // out this packet, then end
                l.transitions += 1;
                let via = guard::catch(|| -> Result<(), String> {
                    let mut c = rtcp_types::Compound::parse(bytes).map_err(|e| format!("Compound::parse = {:?}", e))?;
                    let first = c.next().ok_or("the compound yields nothing")?.map_err(|e| format!("the compound yields {:?}", e))?;
                    let mut o2 = observe::obs_packet(&first, bytes.len()).map_err(|e| format!("{:?}", e))?;
                    if let Pkt::Fb { fci: Fci::Fir(v), .. } = &mut o2 {
                        v.sort();
                    }
                    if !observe::same_observation(&o2, &expected) {
                        return Err(format!("through the compound iteration the packet reads {}", o2.short()));
                    }
                    if c.next().is_some() {
                        return Err("the compound yields a second item".into());
                    }
                    Ok(())
                });
                match via {
                    Err(pi) => l.subject_panic(&format!("{}:parse-as-compound:{}", prop_site, name), &pi, || format!("{} -> {}", p.short(), hex_short(&bytes))),
                    Ok(Err(m)) => l.violation(format!("{}:{}:not-the-same-through-Compound::parse", prop_site, name), || format!("{} -> {}", p.short(), hex_short(&bytes)), || m),
                    Ok(Ok(())) => {
                        if prop_site == "roundtrip" && bytes.len() <= 4096 {
                            roundtrip_in_context(l, prop_site, p, bytes);
                        }
                    }
                }
            } else {
                let f = diff_field(&o, &expected);
                l.violation(
                    format!("{}:{}:mismatch:{}", prop_site, name, f),
                    || format!("{} -> {}", p.short(), hex_short(&bytes)),
                    || format!("parsed view differs in {}: expected {} observed {}", f, expected.short(), o.short()),
                );
            }
        }
    }
}

/// A configuration of the same shape as `p` - same packet type, same SSRCs, same numbers of blocks / sources / chunks /
/// items / entries - whose contents and sizes differ. Realised, sized, written and dropped immediately before `p` is
/// realised again: anything the subject remembers outside the builder under a key that does not identify the whole
/// configuration (an address the allocator hands out again, an SSRC, a count) then answers for the wrong builder.
pub fn sibling(p: &Pkt) -> Pkt {
    let other_pad = |pad: u8| if pad == 0 { 4 } else { 0 };
    let rb = |b: &Rb| Rb { ssrc: b.ssrc, fraction: !b.fraction, cum: (b.cum ^ 0x5555) & 0xFF_FFFF, ext_seq: !b.ext_seq, jitter: b.jitter ^ 0x0F0F, lsr: !b.lsr, dlsr: b.dlsr.wrapping_add(1) };
    match p {
        Pkt::Sr { ssrc, ntp, rtp, pc, oc, blocks, pad } => Pkt::Sr { ssrc: *ssrc, ntp: !*ntp, rtp: rtp ^ 0xFF, pc: pc.wrapping_add(1), oc: !*oc, blocks: blocks.iter().map(rb).collect(), pad: other_pad(*pad) },
        Pkt::Rr { ssrc, blocks, pad } => Pkt::Rr { ssrc: *ssrc, blocks: blocks.iter().map(rb).collect(), pad: other_pad(*pad) },
        Pkt::Sdes { chunks, pad } => Pkt::Sdes {
            chunks: chunks
                .iter()
                .map(|c| Chunk {
                    ssrc: c.ssrc,
                    items: c
                        .items
                        .iter()
                        .map(|it| {
                            let mut it = it.clone();
                            let total = it.value.len() + if it.ty == 8 { it.prefix.len() + 1 } else { 0 };
                            if total < 255 {
                                it.value.push(b'x');
                            } else if let Some(k) = (0..it.value.len()).rev().find(|k| std::str::from_utf8(&it.value[..*k]).is_ok()) {
                                it.value.truncate(k);
                            }
                            it
                        })
                        .collect(),
                })
                .collect(),
            pad: *pad,
        },
        Pkt::Bye { ssrcs, reason, pad } => {
            let mut r = reason.clone();
            if r.len() < 255 {
                r.push('y');
            } else {
                r.pop();
            }
            Pkt::Bye { ssrcs: ssrcs.clone(), reason: r, pad: *pad }
        }
        Pkt::App { ssrc, subtype, name, data, pad } => {
            let mut d = data.clone();
            d.extend_from_slice(&[0x51, 0x52, 0x53, 0x54]);
            Pkt::App { ssrc: *ssrc, subtype: subtype ^ 1, name: name.clone(), data: d, pad: *pad }
        }
        Pkt::Unknown { pt, count, data, pad } => {
            let mut d = data.clone();
            d.extend_from_slice(&[0x51, 0x52, 0x53, 0x54]);
            Pkt::Unknown { pt: *pt, count: count ^ 1, data: d, pad: *pad }
        }
        Pkt::Fb { kind, sender, media, fci, pad } => {
            let fci = match fci {
                Fci::Nack(v) => Fci::Nack(v.iter().map(|s| s.wrapping_mul(2).wrapping_add(3)).collect()),
                Fci::Fir(v) => Fci::Fir(v.iter().map(|(s, q)| (*s, q.wrapping_add(1))).collect()),
                Fci::Sli(v) => Fci::Sli(v.iter().map(|(a, b, c)| (a ^ 1, b ^ 1, c ^ 1)).collect()),
                Fci::Rpsi { pt, data, overrun } => {
                    let mut d = data.clone();
                    d.push(0x77);
                    Fci::Rpsi { pt: pt ^ 1, data: d, overrun: *overrun }
                }
                Fci::Pli => Fci::Pli,
            };
            let pad = if matches!(fci, Fci::Pli) { other_pad(*pad) } else { *pad };
            Pkt::Fb { kind: *kind, sender: *sender, media: *media, fci, pad }
        }
    }
}

/// Number of embedding contexts of `roundtrip_in_context`.
pub const CONTEXTS: u64 = 10;

/// The packet under test among other members, and its writer used more than once. `alone` holds the bytes the
/// writer produced on its own (already read back and compared with the configuration by the caller); here the same
/// configuration is realised once more and the one writer instance is
///  (a) written into a buffer one byte too small (must fail and name the size), sized again, written into an exact and
///      into a larger buffer: every successful write must give `alone` again;
///  (b) added - by reference, so that one instance can stand in several places - to one of `CONTEXTS` member lists
///      chosen by the case index: after / before decoy packets, inside a nested compound, twice or three times in one
///      list, and in the arrangement `[D, P, Compound[P, D]]` where the members in front of a nested compound have
///      the sizes of the nested members in another order. The bytes of the compound must be the concatenation of
///      the decoys' reference images and `alone`, so the packet reads back as configured wherever it stands.
pub fn roundtrip_in_context(l: &mut Local, site: &str, p: &Pkt, alone: &[u8]) {
    use rtcp_types::{App, Bye, Compound, ReceiverReport};
    let idx = l.cur_idx;
    let h = idx ^ (idx >> 2) ^ (idx >> 5) ^ (idx >> 11) ^ (idx >> 17);
    let ctx = h % CONTEXTS;
    let padded = p.pad() != 0;
    let d8 = Pkt::Bye { ssrcs: vec![0xC0DE_0001], reason: String::new(), pad: 0 };
    let d8r = Pkt::Rr { ssrc: 0xC0DE_0002, blocks: vec![], pad: 0 };
    let d12 = Pkt::App { ssrc: 0xC0DE_0003, subtype: 5, name: "ctx".into(), data: vec![], pad: 0 };
    let (i8_, i8r, i12) = (refmodel::wire::encode(&d8), refmodel::wire::encode(&d8r), refmodel::wire::encode(&d12));
    let mut verdict: Option<(String, String)> = None;
    let var = Variant::new(idx % 2 == 1, build::Wrap::None);
    let sib = sibling(p);
    let r = guard::catch(|| {
        // a sibling configuration lives its whole life first, in the same API flavour (same allocation pattern)
        if alone.len() <= 1024 {
            build::with_writer(&sib, var, &mut |w| {
                if let Ok(m) = w.calculate_size() {
                    let mut buf = crate::engine::place::OutBuf::new(m, |_| 0xA5);
                    let _ = DynW(w).write_into(&mut buf);
                }
            });
        }
        build::with_writer(p, var, &mut |w| {
            let n = alone.len();
            // this instance's own first image: equal to `alone` (FIR entries as a multiset: two `FirBuilder` instances
            // order their map differently, one instance keeps its order), and the reference for everything below
            let mut first = crate::engine::place::OutBuf::new(n, |_| 0xA5);
            let r0 = DynW(w).write_into(&mut first);
            let mine: Vec<u8> = first.into_vec();
            let canon = |b: &[u8]| -> Vec<u8> {
                let mut v = b.to_vec();
                if let Pkt::Fb { fci: Fci::Fir(e), .. } = p {
                    let k = Fci::fir_map(e).len();
                    if v.len() >= 12 + 8 * k {
                        let mut es: Vec<[u8; 8]> = v[12..12 + 8 * k].chunks(8).map(|c| <[u8; 8]>::try_from(c).unwrap()).collect();
                        es.sort();
                        for (i, e) in es.iter().enumerate() {
                            v[12 + 8 * i..20 + 8 * i].copy_from_slice(e);
                        }
                    }
                }
                v
            };
            if !matches!(r0, Ok(m) if m == n) || canon(&mine) != canon(alone) {
                verdict = Some(("another-instance-differs".into(), format!("a second builder of the same configuration, made after a sibling of the same shape ({}) was built, written and dropped: write_into = {:?}, bytes equal: {}", sib.short(), r0, mine[..] == alone[..])));
                return;
            }
            let alone: &[u8] = &mine;
            // (a) the same writer used more than once
            if n > 0 {
                let mut small = crate::engine::place::OutBuf::new(n - 1, |_| 0x5A);
                match DynW(w).write_into(&mut small) {
                    Err(rtcp_types::RtcpWriteError::OutputTooSmall(m)) if m == n => {}
                    other => {
                        verdict = Some(("write-into-too-small-buffer".into(), format!("buffer of {} bytes: {:?}, the packet has {} bytes", n - 1, other, n)));
                        return;
                    }
                }
            }
            for extra in [0usize, 8] {
                match w.calculate_size() {
                    Ok(m) if m == n => {}
                    other => {
                        verdict = Some(("size-changes-between-uses".into(), format!("calculate_size() = {:?} after earlier uses, {} before", other, n)));
                        return;
                    }
                }
                let mut buf = crate::engine::place::OutBuf::new(n + extra, |_| 0x3C);
                match DynW(w).write_into(&mut buf) {
                    Ok(m) if m == n && buf[..n] == alone[..] => {}
                    other => {
                        verdict = Some(("later-write-differs".into(), format!("write #{} of the same builder into {} bytes: {:?}, bytes equal: {}", extra / 8 + 2, n + extra, other, buf.len() >= n && buf[..n] == alone[..])));
                        return;
                    }
                }
            }
            // (b) the packet among others
            let b8 = || Bye::builder().add_source(0xC0DE_0001);
            let b8r = || ReceiverReport::builder(0xC0DE_0002);
            let b12 = || App::builder(0xC0DE_0003, "ctx").subtype(5);
            let me = || DynW(w);
            let (cb, parts): (rtcp_types::CompoundBuilder, Vec<&[u8]>) = match (ctx, padded) {
                (0, _) => (Compound::builder().add_packet(b8()).add_packet(me()), vec![&i8_, alone]),
                (1, false) => (Compound::builder().add_packet(me()).add_packet(b8()), vec![alone, &i8_]),
                (1, true) => (Compound::builder().add_packet(b8()).add_packet(b12()).add_packet(me()), vec![&i8_, &i12, alone]),
                (2, _) => (Compound::builder().add_packet(b8r()).add_packet(Compound::builder().add_packet(me())), vec![&i8r, alone]),
                (3, _) => (Compound::builder().add_packet(Compound::builder().add_packet(b8()).add_packet(me())), vec![&i8_, alone]),
                (4, false) => (Compound::builder().add_packet(b8()).add_packet(me()).add_packet(Compound::builder().add_packet(me()).add_packet(b8())), vec![&i8_, alone, alone, &i8_]),
                (4, true) => (Compound::builder().add_packet(b8()).add_packet(b12()).add_packet(Compound::builder().add_packet(b12()).add_packet(b8())).add_packet(me()), vec![&i8_, &i12, &i12, &i8_, alone]),
                (5, false) => (Compound::builder().add_packet(me()).add_packet(me()).add_packet(me()), vec![alone, alone, alone]),
                (5, true) => (Compound::builder().add_packet(b8r()).add_packet(b8r()).add_packet(me()), vec![&i8r, &i8r, alone]),
                (6, _) => (Compound::builder().add_packet(Compound::builder()).add_packet(Compound::builder().add_packet(Compound::builder().add_packet(b12()))).add_packet(me()), vec![&i12, alone]),
                (7, false) => (Compound::builder().add_packet(me()).add_packet(b12()).add_packet(Compound::builder().add_packet(b12()).add_packet(me())).add_packet(b8()), vec![alone, &i12, &i12, alone, &i8_]),
                (7, true) => (Compound::builder().add_packet(b12()).add_packet(Compound::builder().add_packet(b8()).add_packet(b12())).add_packet(me()), vec![&i12, &i8_, &i12, alone]),
                (8, false) => (Compound::builder().add_packet(Compound::builder().add_packet(me()).add_packet(me())).add_packet(b8r()).add_packet(me()), vec![alone, alone, &i8r, alone]),
                (8, true) => (Compound::builder().add_packet(Compound::builder().add_packet(b8r()).add_packet(b8())).add_packet(Compound::builder().add_packet(me())), vec![&i8r, &i8_, alone]),
                (_, false) => (Compound::builder().add_packet(b12()).add_packet(b8()).add_packet(me()).add_packet(Compound::builder().add_packet(me()).add_packet(b8()).add_packet(b12())), vec![&i12, &i8_, alone, alone, &i8_, &i12]),
                (_, true) => (Compound::builder().add_packet(b8()).add_packet(b8r()).add_packet(b12()).add_packet(Compound::builder().add_packet(b12()).add_packet(b8r()).add_packet(b8())).add_packet(me()), vec![&i8_, &i8r, &i12, &i12, &i8r, &i8_, alone]),
            };
            let want: Vec<u8> = parts.concat();
            match cb.calculate_size() {
                Ok(m) if m == want.len() => {
                    let mut buf = crate::engine::place::OutBuf::new(m, |_| 0xA5);
                    match DynW(&cb).write_into(&mut buf) {
                        Ok(k) if k == m && buf[..] == want[..] => {}
                        other => {
                            let at = buf.iter().zip(want.iter()).position(|(a, b)| a != b);
                            verdict = Some((format!("context-{}{}", ctx, if padded { "p" } else { "" }), format!("written among other members the bytes differ from the members' own images: write_into = {:?}, first difference at byte {:?} of {}", other, at, m)));
                        }
                    }
                }
                other => {
                    verdict = Some((format!("context-{}{}", ctx, if padded { "p" } else { "" }), format!("calculate_size() of the compound = {:?}, the members have {} bytes", other, want.len())));
                }
            }
        })
    });
    l.transitions += 5;
    match r {
        Err(pi) => l.subject_panic(&format!("{}-in-context:{}:context-{}", site, p.builder_name(), ctx), &pi, || p.short()),
        Ok(()) => {
            if let Some((k, m)) = verdict {
                l.violation(format!("{}-in-context:{}:{}", site, p.builder_name(), k), || p.short(), || m);
            } else {
                l.hit("same-bytes-among-other-members-and-on-reuse");
            }
        }
    }
}

/// The configuration `p` with a padding that is not a multiple of 4, set as the last builder call after the builder
/// was sized and written at every earlier step (probed flavour; for the builders whose plain call order sets the
/// padding first, the padding-last order): a builder that answered a size query before the padding was known must
/// still refuse - and whatever it accepts must read back as configured.
pub fn illegal_padding_set_late(l: &mut Local, p: &Pkt) {
    const BAD: [u8; 9] = [5, 6, 7, 1, 2, 3, 253, 254, 255];
    let idx = l.cur_idx;
    let mut q = p.clone();
    q.set_pad(BAD[((idx / 3) % 9) as usize]);
    let pad_last = matches!(p, Pkt::Sr { .. } | Pkt::Rr { .. } | Pkt::Sdes { .. } | Pkt::Bye { .. });
    roundtrip_case(l, "roundtrip-illegal-padding-set-late", &q, Variant { pad_last, owned: idx % 2 == 1, ..Variant::PROBED });
}

pub fn fci_name(p: &Pkt) -> &'static str {
    match p {
        Pkt::Fb { fci, .. } => fci.name(),
        _ => "-",
    }
}

pub fn run_cfg_spaces(ctx: &mut Ctx, spaces: Vec<CfgSpace>, f: impl Fn(&Pkt, u64, &mut Local) + Sync) {
    for sp in spaces {
        let get = &sp.get;
        ctx.run_space(&sp.name, sp.len, |idx, l| {
            let p = get(idx);
            f(&p, idx, l);
        });
    }
}

// ---------------------------------------------------------------------------------------------
// Iterator call histories

/// The operations of an iterator call history.
const IT_OPS: [&str; 9] = ["next()", "nth(0)", "nth(1)", "nth(2)", "nth(7)", "by_ref().take(2).count()", "size_hint()", "observe()", "(a second iterator from the same source, advanced / drained)"];
/// The first six operations consume items; the last three are observations (the size hint; `{:?}` of the iterator where it has one, other values parsed and iterated meanwhile otherwise) that may come at any point of a history.
const IT_CONSUMING: u64 = 6;
/// How a history ends (on what is left of the iterator).
const IT_ENDS: [&str; 10] = ["for-loop", "count()", "last()", "nth(remaining)", "collect::<Vec<_>>()", "fold()", "for_each()", "position(last)", "max_by_key(call index)", "skip(1).step_by(2)"];

/// Number of (history, ending) pairs explored by `iterator_histories` for a given depth.
pub fn iterator_history_count(depth: u32) -> u64 {
    (crate::engine::space::seq_count(IT_CONSUMING, depth) + crate::engine::space::seq_count(IT_OPS.len() as u64, depth)) * IT_ENDS.len() as u64
}

/// All call histories of length <= `depth` over {next, nth(0), nth(1), nth(2), nth(7), by_ref().take(2).count()} on
/// a fresh iterator from `mk`, each finished by one of {for-loop, count, last, nth(remaining), collect, fold, for_each, position, max_by_key, skip(1).step_by(2)}, with a `size_hint()` call (which must not disturb anything) after every call, stepped in lock-step
/// with the obvious model: a cursor into the item list that plain `next()` calls produce (`reference`, already
/// compared with the RFC reading by the caller). `nth`, `count`, `last` are methods an iterator may override;
/// an override must agree with repeated `next()`. A history is followed only until the model says the
/// iterator is exhausted (what an iterator answers after its first `None` is pinned for `Compound` only,
/// by C11). Items are compared by the fingerprint of their `Debug` rendering.
pub fn iterator_histories<I, T>(l: &mut Local, site: &str, mk: &dyn Fn() -> I, reference: &[u64], depth: u32, show: &dyn Fn() -> String)
where
    I: Iterator<Item = T>,
    T: std::fmt::Debug,
{
    iterator_histories_obs(l, site, mk, reference, depth, show, &|_| decoy_parse_all())
}

/// `iterator_histories` with the caller's own `observe()` operation (for an iterator that is `Debug`: its `{:?}`).
/// Three passes: (0) the six consuming operations with a `size_hint()` after every call; (1) all eight operations, the
/// observations only where the history puts them (a memo that the first observation fills is filled at every possible
/// point of the iteration, not only at its start); (2) short histories with other values parsed and iterated
/// between any two calls.
pub fn iterator_histories_obs<I, T>(l: &mut Local, site: &str, mk: &dyn Fn() -> I, reference: &[u64], depth: u32, show: &dyn Fn() -> String, observe: &dyn Fn(&I))
where
    I: Iterator<Item = T>,
    T: std::fmt::Debug,
{
    use crate::engine::run::fp_debug;
    use crate::engine::space::{seq_count, seq_decode};
    let n = reference.len();
    let all = IT_OPS.len() as u64;
    let passes = (0..seq_count(IT_CONSUMING, depth)).map(|h| (h, IT_CONSUMING, false, true)).chain((0..seq_count(all, depth)).map(|h| (h, all, false, false))).chain((0..seq_count(IT_CONSUMING, depth.saturating_sub(1).min(2))).map(|h| (h, IT_CONSUMING, true, true)));
    for (h, nops, decoy, auto_hint) in passes {
        let seq = seq_decode(nops, h);
        if nops == all && seq.iter().all(|&op| op < IT_CONSUMING) && !seq.is_empty() {
            // a history without observations: the plain one (no size hints at all) is kept only for the shortest forms
            if seq.len() > 2 {
                continue;
            }
        }
        for (ei, end) in IT_ENDS.iter().enumerate() {
            l.states += 1;
            let r = guard::catch(|| {
                let mut it = mk();
                if decoy {
                    decoy_parse_all();
                }
                let mut cur = 0usize; // model: cursor into `reference`
                let describe = |upto: usize, end: Option<&str>| {
                    let mut d = String::from("it");
                    for &op in &seq[..upto] {
                        d.push_str(&format!(".{}", IT_OPS[op as usize]));
                    }
                    if let Some(e) = end {
                        d.push_str(&format!(" then .{}", e));
                    }
                    d
                };
                for (k, &op) in seq.iter().enumerate() {
                    if cur >= n && op < IT_CONSUMING {
                        return Ok(()); // exhausted in the model: what further consuming calls answer is not pinned
                    }
                    let (got, want): (Option<u64>, Option<u64>) = match op {
                        0 => {
                            let g = it.next().map(|x| fp_debug(&x));
                            let w = reference.get(cur).copied();
                            cur += 1;
                            (g, w)
                        }
                        1..=4 => {
                            let skip = [0usize, 1, 2, 7][(op - 1) as usize];
                            let g = it.nth(skip).map(|x| fp_debug(&x));
                            let w = reference.get(cur + skip).copied();
                            cur = (cur + skip + 1).min(n + 1);
                            (g, w)
                        }
                        5 => {
                            let g = it.by_ref().take(2).count() as u64;
                            let w = (n - cur).min(2) as u64;
                            cur += 2;
                            (Some(g), Some(w))
                        }
                        6 => {
                            // an observation: its answer is not judged (no property pins it), only that it returns and
                            // leaves the iteration alone
                            let _ = it.size_hint();
                            (None, None)
                        }
                        7 => {
                            observe(&it);
                            (None, None)
                        }
                        _ => {
                            // another iterator made by the same call on the same parsed value lives for a moment: it is
                            // advanced by two items, then drained
                            let mut other = mk();
                            let _ = other.next();
                            let _ = other.next();
                            let _ = other.take(n + 2).count();
                            // ... and one more is made and dropped unused while both are out of the way
                            drop(mk());
                            (None, None)
                        }
                    };
                    if got != want {
                        return Err(format!("after {} the {}-th call answers {} where repeated next() gives {} (item {} of {})", describe(k, None), k + 1, if got.is_some() { "an item (or count) that differs" } else { "None" }, if want.is_some() { "another item" } else { "None" }, cur, n));
                    }
                    if cur > n && op < IT_CONSUMING {
                        return Ok(());
                    }
                    // asking for the size hint is an observation: it must return and leave the iterator alone
                    if auto_hint {
                        let _ = it.size_hint();
                    }
                    if decoy {
                        decoy_parse_all();
                    }
                }
                if cur > n {
                    return Ok(());
                }
                let rest = &reference[cur.min(n)..];
                let ok = match ei {
                    0 => {
                        let mut v = Vec::new();
                        for x in it {
                            if v.len() > n + 2 {
                                break;
                            }
                            v.push(fp_debug(&x));
                        }
                        v == rest
                    }
                    1 => it.count() == rest.len(),
                    2 => it.last().map(|x| fp_debug(&x)) == rest.last().copied(),
                    3 => {
                        if rest.is_empty() {
                            true
                        } else {
                            it.nth(rest.len() - 1).map(|x| fp_debug(&x)) == rest.last().copied()
                        }
                    }
                    4 => {
                        // the real `collect` (driven by size_hint + next); `reference` was produced by a plain loop, so
                        // the iterator is known to end
                        let v: Vec<T> = it.collect();
                        v.len() == rest.len() && v.iter().zip(rest).all(|(x, w)| fp_debug(x) == *w)
                    }
                    5 => {
                        let v = it.fold(Vec::new(), |mut acc, x| {
                            if acc.len() <= n + 2 {
                                acc.push(fp_debug(&x));
                            }
                            acc
                        });
                        v == rest
                    }
                    6 => {
                        let mut v = Vec::new();
                        it.for_each(|x| {
                            if v.len() <= n + 2 {
                                v.push(fp_debug(&x));
                            }
                        });
                        v == rest
                    }
                    7 => {
                        // position of the first item that renders like the last one
                        match rest.last() {
                            None => it.position(|_| true).is_none(),
                            Some(w) => {
                                let want = rest.iter().position(|x| x == w);
                                it.position(|x| fp_debug(&x) == *w) == want
                            }
                        }
                    }
                    8 => {
                        // keys that grow with every call: the maximum is the last item, and the key function has
                        // been called once per remaining item
                        let mut k = 0usize;
                        let got = it.max_by_key(|_| {
                            k += 1;
                            k
                        });
                        got.map(|x| fp_debug(&x)) == rest.last().copied() && k == rest.len()
                    }
                    _ => {
                        let v: Vec<u64> = it.skip(1).step_by(2).take(n + 2).map(|x| fp_debug(&x)).collect();
                        let w: Vec<u64> = rest.iter().skip(1).step_by(2).copied().collect();
                        v == w
                    }
                };
                if ok {
                    Ok(())
                } else {
                    Err(format!("{} disagrees with what repeated next() yields from item {} of {}", describe(seq.len(), Some(end)), cur, n))
                }
            });
            l.transitions += seq.len() as u64 + 1;
            l.validated += 1;
            match r {
                Err(pi) => {
                    l.subject_panic(&format!("iterator-history:{}", site), &pi, show);
                    return;
                }
                Ok(Ok(())) => l.hit("iterator history agrees with repeated next()"),
                Ok(Err(msg)) => {
                    l.violation(format!("iterator-history-differs:{}", site), show, || msg);
                    return;
                }
            }
        }
    }
}

/// The reference item list of `iterator_histories`: fingerprints of what plain `next()` calls yield (capped).
pub fn iterator_reference<I, T>(it: I, cap: usize) -> Vec<u64>
where
    I: Iterator<Item = T>,
    T: std::fmt::Debug,
{
    let mut v = Vec::new();
    for x in it {
        if v.len() >= cap {
            break;
        }
        v.push(crate::engine::run::fp_debug(&x));
    }
    v
}

/// Iterator call histories on every iterator reachable from `bytes`: the compound iteration itself and, for every
/// packet it (or `Packet::parse`) yields, report_blocks / chunks / items / ssrcs / the FCI iterators of the packet's
/// own FCI type. Returns the number of iterators driven.
pub fn all_iterator_histories(l: &mut Local, bytes: &[u8], depth: u32) -> usize {
    use rtcp_types::*;
    let show = || hex_short(bytes);
    let mut n = 0usize;
    let cap = 17 * bytes.len() + 8;
    fn packet_iters(l: &mut Local, p: &Packet, depth: u32, cap: usize, show: &dyn Fn() -> String) -> usize {
        let mut n = 0;
        match p {
            Packet::Sr(sr) => {
                let r = iterator_reference(sr.report_blocks(), cap);
                iterator_histories(l, "SenderReport::report_blocks", &|| sr.report_blocks(), &r, depth, show);
                n += 1;
            }
            Packet::Rr(rr) => {
                let r = iterator_reference(rr.report_blocks(), cap);
                iterator_histories(l, "ReceiverReport::report_blocks", &|| rr.report_blocks(), &r, depth, show);
                n += 1;
            }
            Packet::Sdes(sd) => {
                let r = iterator_reference(sd.chunks(), cap);
                iterator_histories(l, "Sdes::chunks", &|| sd.chunks(), &r, depth, show);
                n += 1;
                for c in sd.chunks().take(cap) {
                    let r = iterator_reference(c.items(), cap);
                    iterator_histories(l, "SdesChunk::items", &|| c.items(), &r, depth, show);
                    n += 1;
                }
            }
            Packet::Bye(b) => {
                let r = iterator_reference(b.ssrcs(), cap);
                iterator_histories(l, "Bye::ssrcs", &|| b.ssrcs(), &r, depth, show);
                n += 1;
            }
            Packet::TransportFeedback(t) => {
                if let Ok(x) = t.parse_fci::<Nack>() {
                    let r = iterator_reference(x.entries(), cap);
                    iterator_histories(l, "Nack::entries", &|| x.entries(), &r, depth, show);
                    n += 1;
                }
            }
            Packet::PayloadFeedback(t) => {
                if let Ok(x) = t.parse_fci::<Fir>() {
                    let r = iterator_reference(x.entries(), cap);
                    iterator_histories(l, "Fir::entries", &|| x.entries(), &r, depth, show);
                    n += 1;
                }
                if let Ok(x) = t.parse_fci::<Sli>() {
                    let r = iterator_reference(x.lost_macroblocks(), cap);
                    iterator_histories(l, "Sli::lost_macroblocks", &|| x.lost_macroblocks(), &r, depth, show);
                    n += 1;
                }
            }
            _ => {}
        }
        n
    }
    let r = guard::catch(|| {
        let mut n = 0usize;
        if let Ok(c) = Compound::parse(bytes) {
            let reference = iterator_reference(c, bytes.len() / 4 + 3);
            iterator_histories_obs(l, "Compound", &|| Compound::parse(bytes).expect("parsed a moment ago"), &reference, depth, &show, &|c| {
                let _ = crate::engine::run::fp_debug(c);
            });
            n += 1;
            if let Ok(c) = Compound::parse(bytes) {
                for p in c.take(bytes.len() / 4 + 3).flatten() {
                    n += packet_iters(l, &p, depth, cap, &show);
                }
            }
        } else if let Ok(p) = Packet::parse(bytes) {
            n += packet_iters(l, &p, depth, cap, &show);
        }
        n
    });
    match r {
        Err(pi) => l.subject_panic("iterator-history", &pi, show),
        Ok(k) => n += k,
    }
    n
}


/// Iterator call histories on the parsed form of ~`per_space` built packets of each configuration space (a stride
/// through the space): the round-trip properties speak of "the same blocks / chunks / entries in the same order",
/// which must hold however the iterators are driven.
pub fn roundtrip_iterator_histories(ctx: &mut Ctx, spaces: Vec<CfgSpace>, per_space: u64, depth: u32) {
    ctx.bound("iterator histories", format!("about {} built packets per configuration space: every iterator of the parsed packet driven through all call sequences of length <= {} over {{next, nth(0), nth(1), nth(2), nth(7), take(2).count()}} x 10 endings with size_hint() after every call, and over those plus {{size_hint(), observe(), a second iterator over the same value}} placed by the history", per_space, depth));
    for sp in spaces {
        let stride = (sp.len / per_space).max(1);
        let n = sp.len / stride;
        let get = &sp.get;
        ctx.run_space(&format!("iterator-histories:{}", sp.name), n, |idx, l| {
            let p = get(idx * stride);
            l.evals += 1;
            if crate::refmodel::wire::encoded_len(&p) > 2048 {
                l.hit("(large packet: iterator histories skipped)");
                return;
            }
            if let Some(Built::Bytes(b)) = build_bytes(l, "roundtrip", &p, Variant::PLAIN) {
                l.sample(|| format!("iterator histories on the built {}", p.short()));
                crate::placed!(l, b);
                all_iterator_histories(l, b, depth);
            }
        });
    }
}


/// The header field readers of `utils::parser` against the reference header reader.
pub fn header_field_readers_case(l: &mut Local, s: &[u8]) {
    use crate::refmodel::read;
    // the field readers a third-party parser is handed (utils::parser::parse_*): on any slice that holds the whole
    // leading packet - exactly, or followed by more bytes, as when a datagram is walked by hand - they read that
    // packet's header fields and the last byte of that packet
    if let Some(h) = read::header(s) {
        use rtcp_types::utils::parser as up;
        if s.len() >= h.announced && s.len() >= 4 {
            l.transitions += 1;
            let r = guard::catch(|| (up::parse_version(s), up::parse_padding_bit(s), up::parse_count(s), up::parse_packet_type(s), up::parse_length(s), up::parse_padding(s), if s.len() >= 8 { Some(up::parse_ssrc(s)) } else { None }));
            l.validated += 1;
            match r {
                Err(pi) => l.subject_panic("utils::parser::parse_*", &pi, || hex_short(s)),
                Ok(got) => {
                    let want = (h.version, h.p, h.count, h.pt, h.announced, if h.p { Some(s[h.announced - 1]) } else { None }, if s.len() >= 8 { Some(read::rd32(s, 4)) } else { None });
                    if got != want {
                        l.violation("header-field-reader-wrong", || hex_short(s), || format!("(version, P, count, type, length, padding, ssrc) read as {:?}, the leading packet has {:?}", got, want));
                    } else {
                        l.hit("header field readers ok");
                    }
                }
            }
        }
    }
}

// ---------------------------------------------------------------------------------------------
// The unoptimised second build

pub fn is_frames_child() -> bool {
    std::env::var("VERIF_FRAMES_CHILD").map(|v| v == "1").unwrap_or(false)
}

/// The long inputs again, in a child process running the `frames` build of this same harness, in which the subject
/// is compiled without optimisation: there every call keeps its frame, so a recursion whose depth grows with the
/// input (one that the optimiser turns into a loop in the release build) runs out of stack as it would in a user's
/// debug build. A stack overflow is not a panic: the child's SIGABRT handler and watchdog turn it into a replay
/// file and a VIOLATION line, which are relayed here as a violation of this check.
pub fn unoptimised_build_pass(ctx: &mut Ctx, what: &str) {
    let prop = ctx.prop;
    const NAME: &str = "unoptimised-build-child";
    if let Some((rs, _)) = &ctx.replay {
        if rs != NAME {
            return;
        }
    }
    let bin = match std::env::var("VERIF_FRAMES_BIN") {
        Ok(b) if !b.is_empty() => std::path::PathBuf::from(b),
        _ => {
            // next to this binary: <target>/release/rtcp-mc -> <target>/frames/rtcp-mc
            let me = std::env::current_exe().unwrap_or_else(|e| crate::engine::run::machinery_failure(&format!("current_exe: {}", e)));
            me.parent().and_then(|p| p.parent()).map(|p| p.join("frames").join("rtcp-mc")).unwrap_or_default()
        }
    };
    if !bin.is_file() {
        crate::engine::run::machinery_failure(&format!("the unoptimised build of the harness is missing ({}); ./check builds it (cargo build --profile frames)", bin.display()));
    }
    let vd = std::env::var("VERIF_DIR").unwrap_or_else(|_| ".".into());
    let child_dir = format!("{}/out/frames-child", vd);
    let _ = std::fs::create_dir_all(&child_dir);
    let t0 = std::time::Instant::now();
    let out = std::process::Command::new(&bin)
        .arg(prop)
        .arg(ctx.tier.name())
        .env("VERIF_FRAMES_CHILD", "1")
        .env("VERIF_DIR", &child_dir)
        .env_remove("VERIF_STRICT_VACUITY")
        .output()
        .unwrap_or_else(|e| crate::engine::run::machinery_failure(&format!("cannot run {}: {}", bin.display(), e)));
    let wall = t0.elapsed().as_secs_f64();
    let stdout = String::from_utf8_lossy(&out.stdout).to_string();
    let stderr = String::from_utf8_lossy(&out.stderr).to_string();
    let summary = stdout.lines().find(|l| l.starts_with(&format!("{} ", prop))).unwrap_or("").to_string();
    let code = out.status.code();
    let mut l = Local::new(ctx.bitmap.clone(), ctx.seed, ctx.tier, ctx.replay.is_some());
    l.cur_space = NAME.to_string();
    l.cur_idx = 0;
    l.evals += 1;
    l.states += 1;
    l.transitions += 1;
    l.validated += 1;
    match code {
        Some(0) => {
            l.hit("unoptimised build: the long inputs ran to completion");
            ctx.bound("unoptimised build", format!("{} were run a second time in a child process built with the subject at opt-level 0 (no tail-call elimination, 2 MiB worker stacks): exit 0, {}", what, summary));
        }
        Some(1) => {
            let keys: Vec<String> = stdout.lines().filter_map(|x| x.trim().strip_prefix("key=")).map(|x| x.split_whitespace().next().unwrap_or("").to_string()).collect();
            let key = format!("unoptimised-build:{}", keys.first().cloned().unwrap_or_else(|| "violation".into()));
            let lines: Vec<&str> = stdout.lines().filter(|x| x.starts_with("VIOLATION") || x.starts_with("  ")).filter(|x| !x.starts_with("  space ")).take(12).collect();
            let tail: String = stderr.lines().rev().take(6).collect::<Vec<_>>().into_iter().rev().collect::<Vec<_>>().join(" | ");
            l.violation(key, || format!("child process {} {} {} (subject at opt-level 0)", bin.display(), prop, ctx.tier.name()), || format!("{} || stderr: {}", lines.join(" | "), tail));
        }
        other => {
            let tail: String = stderr.lines().rev().take(8).collect::<Vec<_>>().into_iter().rev().collect::<Vec<_>>().join(" | ");
            crate::engine::run::machinery_failure(&format!("the unoptimised-build child ended with status {:?}: {}", other, tail));
        }
    }
    ctx.total.merge_from(l);
    ctx.spaces.push(crate::engine::run::SpaceReport { name: NAME.to_string(), len: 1, done: 1, wall_s: wall });
}

// ---------------------------------------------------------------------------------------------
// Buffer reuse

/// Hands `s` to every parsing entry point and forgets the answers (the predecessor step of `ByteSpace::with_pred`).
/// A panic here is another case's business (the predecessor is a string of the same space, judged as its own case).
pub fn touch_all_parsers(s: &[u8]) {
    use rtcp_types::*;
    let _ = guard::catch(|| {
        if let Ok(c) = Compound::parse(s) {
            for p in c.take(s.len() / 4 + 2) {
                let _ = p;
            }
        }
        let _ = Packet::parse(s).map(|_| ());
        let _ = SenderReport::parse(s).map(|_| ());
        let _ = ReceiverReport::parse(s).map(|_| ());
        let _ = Sdes::parse(s).map(|_| ());
        let _ = Bye::parse(s).map(|_| ());
        let _ = App::parse(s).map(|_| ());
        let _ = TransportFeedback::parse(s).map(|_| ());
        let _ = PayloadFeedback::parse(s).map(|_| ());
        let _ = Unknown::parse(s).map(|_| ());
    });
}

/// Other parsed values living their whole life while an iterator under observation is half-way: a datagram holding
/// one packet of every type (with a generic NACK of 40 words and an SLI of 34 entries - longer than a small-list shortcut -
/// and short lists otherwise) is parsed, every packet of it iterated to its end and its FCI decoded as every
/// FCI type. What an iterator yields is a function of the bytes it was made from; anything kept outside it (a
/// `static`, a `thread_local!` scratch buffer) by another iterator shows as a difference from the undisturbed run.
pub fn decoy_parse_all() {
    use rtcp_types::*;
    static DECOY: std::sync::OnceLock<Vec<u8>> = std::sync::OnceLock::new();
    let d = DECOY.get_or_init(|| {
        use crate::refmodel::wire::encode;
        let mut v = Vec::new();
        let blocks: Vec<Rb> = (0..3).map(|i| gens::sentinel_rb(i, 0xD0)).collect();
        v.extend(encode(&Pkt::Sr { ssrc: 0xD0D0_0101, ntp: 0x0102_0304_0506_0708, rtp: 9, pc: 10, oc: 11, blocks: blocks.clone(), pad: 0 }));
        v.extend(encode(&Pkt::Rr { ssrc: 0xD0D0_0102, blocks, pad: 0 }));
        v.extend(encode(&Pkt::Sdes { chunks: (0..3u32).map(|c| Chunk { ssrc: 0xD0D0_0200 + c, items: (0..(c % 5) as u8).map(|i| Item::new(1 + i, format!("decoy-{}-{}", c, i).as_bytes())).chain(std::iter::once(Item::priv_(b"pfx", b"value"))).collect() }).collect(), pad: 0 }));
        v.extend(encode(&Pkt::Bye { ssrcs: (0..4u32).map(|i| 0xD0D0_0300 + i).collect(), reason: "decoy datagram".into(), pad: 0 }));
        v.extend(encode(&Pkt::App { ssrc: 0xD0D0_0400, subtype: 5, name: "dcoy".into(), data: (0..8u8).collect(), pad: 0 }));
        v.extend(encode(&Pkt::Fb { kind: Kind::Transport, sender: 0xD0D0_0500, media: 0xD0D0_0501, fci: Fci::Nack((0..40u32).map(|i| (i * 19 + 7) as u16).collect()), pad: 0 }));
        v.extend(encode(&Pkt::Fb { kind: Kind::Payload, sender: 0xD0D0_0600, media: 0xD0D0_0601, fci: Fci::Sli((0..34u16).map(|i| (i * 3, i + 1, (i % 64) as u8)).collect()), pad: 0 }));
        v.extend(encode(&Pkt::Fb { kind: Kind::Payload, sender: 0xD0D0_0700, media: 0xD0D0_0701, fci: Fci::Fir((0..3u32).map(|i| (0xD0D0_0800 + i, i as u8)).collect()), pad: 0 }));
        v.extend(encode(&Pkt::Fb { kind: Kind::Payload, sender: 0xD0D0_0900, media: 0xD0D0_0901, fci: Fci::Rpsi { pt: 99, data: (0..50u8).collect(), overrun: 3 }, pad: 0 }));
        v.extend(encode(&Pkt::Unknown { pt: 211, count: 4, data: (0..32u8).collect(), pad: 8 }));
        v
    });
    let _ = guard::catch(|| {
        let mut sink = 0u64;
        if let Ok(c) = Compound::parse(d) {
            for p in c.take(32).flatten() {
                match &p {
                    Packet::Sr(x) => sink += x.report_blocks().map(|b| b.ssrc() as u64).sum::<u64>(),
                    Packet::Rr(x) => sink += x.report_blocks().map(|b| b.ssrc() as u64).sum::<u64>(),
                    Packet::Sdes(x) => {
                        for ch in x.chunks() {
                            sink += ch.ssrc() as u64 + ch.length() as u64;
                            for it in ch.items() {
                                sink += it.value().len() as u64 + it.type_() as u64;
                            }
                        }
                    }
                    Packet::Bye(x) => sink += x.ssrcs().map(|s| s as u64).sum::<u64>() + x.reason().map(|r| r.len() as u64).unwrap_or(0),
                    Packet::App(x) => sink += x.data().len() as u64 + x.name()[0] as u64,
                    Packet::TransportFeedback(x) => {
                        if let Ok(f) = x.parse_fci::<Nack>() {
                            sink += f.entries().map(|e| e as u64).sum::<u64>();
                        }
                    }
                    Packet::PayloadFeedback(x) => {
                        if let Ok(f) = x.parse_fci::<Sli>() {
                            sink += f.lost_macroblocks().count() as u64;
                        }
                        if let Ok(f) = x.parse_fci::<Fir>() {
                            sink += f.entries().map(|e| e.ssrc() as u64).sum::<u64>();
                        }
                        if let Ok(f) = x.parse_fci::<Rpsi>() {
                            sink += f.bit_string().0.len() as u64 + f.payload_type() as u64;
                        }
                        let _ = x.parse_fci::<Pli>();
                    }
                    Packet::Unknown(x) => sink += x.data().len() as u64,
                }
            }
        }
        std::hint::black_box(sink);
    });
}
