//! C15: FCI decoding of arbitrary control information against the reference decoders, with the
//! kind/format gating checked for every (kind, format, FCI type) triple.

use super::bytes;
use crate::engine::guard;
use crate::engine::json::hex_short;
use crate::engine::run::{fp_bytes, Ctx, Local, Tier};
use crate::engine::space::*;
use crate::refmodel::model::*;
use crate::refmodel::read;
use crate::subject::observe::{self, ObsErr};
use rtcp_types::prelude::*;
use rtcp_types::*;

#[derive(Clone, Copy, Debug, PartialEq, Eq)]
enum F {
    Nack,
    Pli,
    Sli,
    Rpsi,
    Fir,
}
const FS: [F; 5] = [F::Nack, F::Pli, F::Sli, F::Rpsi, F::Fir];

impl F {
    fn home(self) -> (Kind, u8) {
        match self {
            F::Nack => (Kind::Transport, 1),
            F::Pli => (Kind::Payload, 1),
            F::Sli => (Kind::Payload, 2),
            F::Rpsi => (Kind::Payload, 3),
            F::Fir => (Kind::Payload, 4),
        }
    }
    fn name(self) -> &'static str {
        match self {
            F::Nack => "Nack",
            F::Pli => "Pli",
            F::Sli => "Sli",
            F::Rpsi => "Rpsi",
            F::Fir => "Fir",
        }
    }
    fn ok_bucket(self) -> &'static str {
        match self {
            F::Nack => "decoded:Nack",
            F::Pli => "decoded:Pli",
            F::Sli => "decoded:Sli",
            F::Rpsi => "decoded:Rpsi",
            F::Fir => "decoded:Fir",
        }
    }
}

/// What the reference decoder says the FCI body means for FCI type `f` (None = no meaning, e.g.
/// RPSI announcing more padding than it has, or a non-empty PLI).
fn reference(f: F, body: &[u8]) -> Option<Fci> {
    match f {
        F::Nack => Some(Fci::Nack(read::nack_unpack(body))),
        F::Pli => {
            if body.is_empty() {
                Some(Fci::Pli)
            } else {
                None
            }
        }
        F::Sli => Some(Fci::Sli(read::sli_decode(body))),
        F::Fir => Some(Fci::Fir(read::fir_decode(body))),
        F::Rpsi => read::rpsi_decode(body).map(|(pt, data, ign)| Fci::Rpsi { pt, data, overrun: ign as u8 }),
    }
}

fn observe_as(f: F, kind: Kind, pkt: &[u8]) -> Result<Result<Fci, ObsErr>, RtcpParseError> {
    // parse with the packet parser of `kind`, then request FCI type `f`
    macro_rules! get {
        ($fb:expr) => {
            match f {
                F::Nack => $fb.parse_fci::<Nack>().map_err(ObsErr::Fci).and_then(|x| observe::obs_nack(&x, pkt.len()).map(Fci::Nack)),
                F::Pli => $fb.parse_fci::<Pli>().map_err(ObsErr::Fci).map(|_| Fci::Pli),
                F::Sli => $fb.parse_fci::<Sli>().map_err(ObsErr::Fci).and_then(|x| observe::obs_sli(&x, pkt.len()).map(Fci::Sli)),
                F::Rpsi => $fb.parse_fci::<Rpsi>().map_err(ObsErr::Fci).map(|x| observe::obs_rpsi(&x)),
                F::Fir => $fb.parse_fci::<Fir>().map_err(ObsErr::Fci).and_then(|x| observe::obs_fir(&x, pkt.len()).map(Fci::Fir)),
            }
        };
    }
    match kind {
        Kind::Transport => TransportFeedback::parse(pkt).map(|fb| get!(fb)),
        Kind::Payload => PayloadFeedback::parse(pkt).map(|fb| get!(fb)),
    }
}

fn packet(kind: Kind, fmt: u8, body: &[u8], pad: u8) -> Vec<u8> {
    let total = 12 + body.len() + pad as usize;
    let mut v = Vec::with_capacity(total);
    v.push(0x80 | if pad > 0 { 0x20 } else { 0 } | (fmt & 0x1F));
    v.push(kind.pt());
    let words = (total / 4 - 1) as u16;
    v.push((words >> 8) as u8);
    v.push(words as u8);
    v.extend_from_slice(&[0x11, 0x22, 0x33, 0x44, 0x55, 0x66, 0x77, 0x88]);
    v.extend_from_slice(body);
    if pad > 0 {
        for _ in 0..pad - 1 {
            v.push(0);
        }
        v.push(pad);
    }
    v
}

fn same_fci(a: &Fci, b: &Fci) -> bool {
    match (a, b) {
        (Fci::Rpsi { pt: p1, data: d1, overrun: o1 }, Fci::Rpsi { pt: p2, data: d2, overrun: o2 }) => p1 == p2 && read::bits(d1, *o1 as usize) == read::bits(d2, *o2 as usize),
        _ => a == b,
    }
}

/// one (kind, fmt, requested FCI type) evaluation of a feedback packet carrying `body`
fn gate_case(l: &mut Local, kind: Kind, fmt: u8, f: F, body: &[u8], pad: u8) {
    gate_case_x(l, kind, fmt, f, body, pad, true)
}

/// `strict` = the packet is well-framed with a legal padding, so the packet parser must accept it; otherwise
/// (a padding count that is not a multiple of 4) the packet parser may refuse, and only "if accepted, then the FCI
/// is the bytes between the header and the padding" is checked.
fn gate_case_x(l: &mut Local, kind: Kind, fmt: u8, f: F, body: &[u8], pad: u8, strict: bool) {
    let pkt = packet(kind, fmt, body, pad);
    // handed over at a rotating address residue (engine::place)
    crate::placed!(l, pkt);
    l.transitions += 1;
    let r = guard::catch(|| observe_as(f, kind, &pkt));
    l.validated += 1;
    let r = match r {
        Err(pi) => {
            l.subject_panic(&format!("parse_fci::<{}>", f.name()), &pi, || hex_short(&pkt));
            return;
        }
        Ok(r) => r,
    };
    let inner = match r {
        Err(e) => {
            if strict {
                // body lengths here are multiples of 4 and the header is well-formed: the packet parser must accept
                l.violation("feedback-packet-rejected", || hex_short(&pkt), || format!("{:?}", e));
            } else {
                l.hit("odd padding count: packet refused");
            }
            return;
        }
        Ok(i) => i,
    };
    if !strict {
        // the packet was accepted: it must then report the padding count found in its last byte, which
        // delimits the FCI
        let reported = match kind {
            Kind::Transport => TransportFeedback::parse(&pkt).ok().and_then(|p| p.padding()),
            Kind::Payload => PayloadFeedback::parse(&pkt).ok().and_then(|p| p.padding()),
        };
        if reported != Some(pad) {
            l.hit("odd padding count: accepted with another padding reading (FCI extent undefined)");
            return;
        }
        l.hit("odd padding count: accepted");
    }
    let matches_home = f.home() == (kind, fmt);
    match inner {
        Ok(got) => {
            if !matches_home {
                l.violation(
                    format!("gating:{}-decoded-from-wrong-kind-or-format", f.name()),
                    || hex_short(&pkt),
                    || format!("parse_fci::<{}> succeeded on a {:?} packet with format {}", f.name(), kind, fmt),
                );
                return;
            }
            match reference(f, body) {
                None => l.violation(format!("undecodable-accepted:{}", f.name()), || hex_short(&pkt), || format!("the reference decoder finds no {} in this FCI, the parser yields {:?}", f.name(), got)),
                Some(want) => {
                    if same_fci(&got, &want) {
                        l.hit(f.ok_bucket());
                    } else {
                        l.violation(format!("decoding-differs:{}", f.name()), || hex_short(&pkt), || format!("parser yields {:?}, the RFC decoding is {:?}", got, want));
                    }
                }
            }
        }
        Err(ObsErr::Fci(e)) => {
            if matches_home {
                // Control information that is well-formed per RFC 4585/5104 for this very FCI type (at least one
                // whole NACK/SLI word or FIR entry, an RPSI whose PB fits its bit string, an empty PLI) has a
                // defined decoding; a parser that refuses it does not follow the RFC. Empty NACK/SLI/FIR lists,
                // FIR bodies with a trailing half entry and everything else the RFC does not define stay free.
                let must = strict
                    && match f {
                    F::Nack | F::Sli => !body.is_empty() && body.len() % 4 == 0,
                    F::Fir => !body.is_empty() && body.len() % 8 == 0,
                    F::Rpsi => reference(f, body).is_some(),
                    F::Pli => body.is_empty(),
                    };
                if must {
                    l.violation(
                        format!("well-formed-fci-rejected:{}", f.name()),
                        || hex_short(&pkt),
                        || format!("parse_fci::<{}> under its own kind and format returns {:?}; the RFC decoding is {:?}", f.name(), e, reference(f, body)),
                    );
                } else {
                    l.hit("rejected by the matching FCI parser");
                }
            } else {
                l.hit("gated out");
            }
        }
        Err(e) => l.violation(format!("iteration-failed:{}", f.name()), || hex_short(&pkt), || format!("{:?}", e)),
    }
}

/// a body evaluated under its home gate (both paddings) — the bulk spaces
fn home_case(l: &mut Local, f: F, body: &[u8], idx: u64) {
    l.evals += 1;
    l.states += 1;
    l.sample(|| format!("{} fci {}", f.name(), hex_short(body)));
    l.nontrivial(crate::engine::run::fp_combine(fp_bytes(body), f as u64));
    let (kind, fmt) = f.home();
    gate_case(l, kind, fmt, f, body, if idx % 5 == 4 { 4 } else { 0 });
}

/// a body evaluated under all 2 x 32 (kind, format) gates and all 5 requested FCI types
fn all_gates_case(l: &mut Local, body: &[u8], pad: u8) {
    l.evals += 1;
    l.states += 1;
    l.sample(|| format!("all gates, fci {}", hex_short(body)));
    l.nontrivial(fp_bytes(body));
    for kind in [Kind::Transport, Kind::Payload] {
        for fmt in 0..32u8 {
            for f in FS {
                gate_case(l, kind, fmt, f, body, pad);
            }
        }
    }
}

fn direct_case(l: &mut Local, s: &[u8]) {
    // <F as FciParser>::parse on raw bytes of any length (this is where lengths = 1,2,3 mod 4 occur)
    l.evals += 1;
    l.states += 1;
    l.sample(|| format!("direct {}", hex_short(s)));
    l.nontrivial(fp_bytes(s));
    macro_rules! go {
        ($T:ty, $f:expr, $obs:expr) => {{
            l.transitions += 1;
            let r = guard::catch(|| <$T as FciParser>::parse(s).map_err(ObsErr::Fci).and_then($obs));
            l.validated += 1;
            match r {
                Err(pi) => l.subject_panic(concat!("direct:", stringify!($T)), &pi, || hex_short(s)),
                Ok(Err(ObsErr::Fci(_))) => l.hit("direct: rejected"),
                Ok(Err(e)) => l.violation(concat!("direct-iteration-failed:", stringify!($T)), || hex_short(s), || format!("{:?}", e)),
                Ok(Ok(got)) => match reference($f, s) {
                    None => l.violation(concat!("direct-undecodable-accepted:", stringify!($T)), || hex_short(s), || format!("{:?}", got)),
                    Some(want) => {
                        if same_fci(&got, &want) {
                            l.hit("direct: decoded");
                        } else {
                            l.violation(concat!("direct-decoding-differs:", stringify!($T)), || hex_short(s), || format!("parser yields {:?}, the RFC decoding is {:?}", got, want));
                        }
                    }
                },
            }
        }};
    }
    go!(Nack, F::Nack, |x: Nack| observe::obs_nack(&x, s.len()).map(Fci::Nack));
    go!(Pli, F::Pli, |_x: Pli| Ok(Fci::Pli));
    go!(Sli, F::Sli, |x: Sli| observe::obs_sli(&x, s.len()).map(Fci::Sli));
    go!(Rpsi, F::Rpsi, |x: Rpsi| Ok(observe::obs_rpsi(&x)));
    go!(Fir, F::Fir, |x: Fir| observe::obs_fir(&x, s.len()).map(Fci::Fir));
}

pub fn c15(ctx: &mut Ctx) {
    ctx.rule = "feedback packets are assembled around FCI bodies; parse_fci::<F> for each of the five FCI types is compared with the reference decoder (NACK per word PID then PID+k for set bits ascending; FIR per 8 bytes; SLI 13/13/6; RPSI 7-bit type and bit string minus PB bits; PLI empty only) and must fail unless (kind, format) is F's own; bulk spaces run under F's own gate, a boundary set runs under all 2x32 gates x 5 types; plus <F as FciParser>::parse directly on raw strings of every length 0..=40; non-trivial = every case, distinct by fingerprint of (body, FCI type)".into();
    let thorough = ctx.tier == Tier::Thorough;
    ctx.bound("NACK single words", if thorough { "all 2^32 words" } else { "118 PIDs (0..=31, 0x1230..=0x123F, byte boundaries, 0xFFC0..=0xFFFF) x all 65536 BLP" });
    ctx.bound("SLI single words", if thorough { "all 2^32 words" } else { "walk alphabet + 37 high halves (16-bit walk) x all 2^16 low halves" });
    ctx.bound("lists", "NACK 2-3 words from a 12-word boundary set; FIR 0..=3 entries; RPSI byte0 x byte1 (all 65536) x lengths 4..=36; PLI 0/4/8");
    ctx.bound("gating", "2 kinds x 32 formats x 5 FCI types x paddings {0,4,8,252} on 60 boundary bodies");
    ctx.assume("word lists between 4 and 254 words only through the builder-made packets of C05");

    // NACK single words
    if thorough {
        ctx.run_space("nack-all-words", 1u64 << 32, |idx, l| {
            let w = idx as u32;
            home_case(l, F::Nack, &w.to_be_bytes(), idx);
        });
    } else {
        let mut pids: Vec<u16> = (0..=31u16).collect();
        pids.extend(0x1230u16..=0x123F);
        pids.extend([0x00FF, 0x0100, 0x7FFF, 0x8000, 0x8001, 0xFF00]);
        pids.extend(0xFFC0u16..=0xFFFF);
        let np = pids.len() as u64;
        ctx.run_space("nack-pids-x-all-blp", np * 65536, move |idx, l| {
            let w = ((pids[(idx / 65536) as usize] as u32) << 16) | (idx % 65536) as u32;
            home_case(l, F::Nack, &w.to_be_bytes(), idx);
        });
    }
    // pairs of words whose second PID stands in every small relation to the first word: PID2 = PID1 + k for k in
    // 0..=18, the first word's mask empty / one bit at every position / full, from bases in the middle, next to
    // 0x8000 and next to the wrap (a word that continues, repeats or overlaps what its predecessor reported)
    ctx.run_space("nack-word-pairs-pid-relations", 19 * 18 * 4 * 3, |idx, l| {
        let k = (idx % 19) as u16;
        let m1: u16 = match (idx / 19) % 18 {
            0 => 0,
            17 => 0xFFFF,
            b => 1 << (b - 1),
        };
        let p1 = [100u16, 0x7FF8, 0xFFFA, 0xFFEF][((idx / 342) % 4) as usize];
        let m2 = [0u16, 0x0001, 0x8421][(idx / 1368) as usize];
        let mut body = Vec::new();
        body.extend_from_slice(&p1.to_be_bytes());
        body.extend_from_slice(&m1.to_be_bytes());
        body.extend_from_slice(&p1.wrapping_add(k).to_be_bytes());
        body.extend_from_slice(&m2.to_be_bytes());
        home_case(l, F::Nack, &body, idx);
    });
    // NACK lists
    let bw: [u32; 12] = [0, 0xFFFF_FFFF, 0x0000_FFFF, 0xFFFF_0000, 0x1234_0001, 0x1234_8000, 0xFFFF_8000, 0xFFF0_FFFF, 0x0001_0000, 0x8000_0001, 0x0010_0100, 0xFFEF_0001];
    let n = seq_count(12, 3) - 1 - 12;
    ctx.run_space("nack-word-lists", n, move |idx, l| {
        let s = seq_decode(12, idx + 13);
        let body: Vec<u8> = s.iter().flat_map(|&i| bw[i as usize].to_be_bytes()).collect();
        home_case(l, F::Nack, &body, idx);
    });
    // NACK word lists whose words expand to different numbers of entries (1, 2, 9, 9, 16, 17): every list of up to 5
    // words, and every list of 6..=8 words over {16 entries, 17 entries} - running totals of every kind
    let masks: [u16; 6] = [0x0000, 0x0001, 0x00FF, 0x5555, 0x7FFF, 0xFFFF];
    let n5 = seq_count(6, 5);
    ctx.bound("NACK word lists", "all lists of <= 5 words over masks {0000,0001,00FF,5555,7FFF,FFFF}; all lists of 6..=8 words over {7FFF,FFFF}");
    ctx.run_space("nack-word-lists-by-entry-count", n5 + (64 + 128 + 256), move |idx, l| {
        let seq: Vec<u64> = if idx < n5 {
            seq_decode(6, idx)
        } else {
            let k = idx - n5;
            let (len, r) = if k < 64 { (6, k) } else if k < 192 { (7, k - 64) } else { (8, k - 192) };
            (0..len).map(|i| 4 + ((r >> i) & 1)).collect()
        };
        let body: Vec<u8> = seq.iter().enumerate().flat_map(|(i, &m)| ((((0x0400 + 0x40 * i as u32) & 0xFFFF) << 16) | masks[m as usize] as u32).to_be_bytes()).collect();
        home_case(l, F::Nack, &body, idx);
    });
    // SLI single words
    if thorough {
        ctx.run_space("sli-all-words", 1u64 << 32, |idx, l| {
            let w = idx as u32;
            home_case(l, F::Sli, &w.to_be_bytes(), idx);
        });
    } else {
        let walk = u32_walk();
        let nw = walk.len() as u64;
        let highs: Vec<u32> = u16_walk().into_iter().map(|x| x as u32).collect();
        let nh = highs.len() as u64;
        ctx.run_space("sli-walk-and-low-halves", nw + nh * 65536, move |idx, l| {
            let w = if idx < nw { walk[idx as usize] } else { (highs[((idx - nw) / 65536) as usize] << 16) | ((idx - nw) % 65536) as u32 };
            home_case(l, F::Sli, &w.to_be_bytes(), idx);
        });
    }
    let n = seq_count(12, 3) - 1 - 12;
    ctx.run_space("sli-word-lists", n, move |idx, l| {
        let s = seq_decode(12, idx + 13);
        let body: Vec<u8> = s.iter().flat_map(|&i| bw[i as usize].to_be_bytes()).collect();
        home_case(l, F::Sli, &body, idx);
    });
    // SLI: relations between neighbouring entries - the second starts where the first ends (or one before / after),
    // same or another picture, zero or non-zero numbers, both orders, alone / between others / followed by a third run
    ctx.run_space("sli-neighbouring-runs", 3 * 2 * 2 * 2 * 2 * 3, move |idx, l| {
        let d = [-1i32, 0, 1][(idx % 3) as usize];
        let same_pic = (idx / 3) % 2 == 0;
        let n1 = [5u32, 0][((idx / 6) % 2) as usize];
        let n2 = [7u32, 0][((idx / 12) % 2) as usize];
        let swap = (idx / 24) % 2 == 1;
        let w = |first: u32, number: u32, pic: u32| ((first & 0x1FFF) << 19) | ((number & 0x1FFF) << 6) | (pic & 0x3F);
        let e1 = w(100, n1, 9);
        let e2 = w((100 + n1 as i32 + d) as u32, n2, if same_pic { 9 } else { 10 });
        let mut v = if swap { vec![e2, e1] } else { vec![e1, e2] };
        match idx / 48 {
            1 => {
                v.insert(0, w(1, 1, 1));
                v.push(w(4000, 3, 2));
            }
            2 => v.push(w(100 + n1 + n2, 2, 9)),
            _ => {}
        }
        let body: Vec<u8> = v.iter().flat_map(|x| x.to_be_bytes()).collect();
        home_case(l, F::Sli, &body, idx);
    });
    // FIR: neighbouring entries with equal / different SSRC x equal / different sequence number, 2 and 3 entries
    ctx.run_space("fir-neighbouring-entries", 2 * 2 * 2 * 2, move |idx, l| {
        let e = |ssrc: u32, seq: u8| {
            let mut b = ssrc.to_be_bytes().to_vec();
            b.extend_from_slice(&[seq, 0, 0, 0]);
            b
        };
        let s2 = if idx % 2 == 0 { 0x0A0B_0C0D } else { 0x0A0B_0C0E };
        let q2 = if (idx / 2) % 2 == 0 { 4 } else { 5 };
        let mut body = e(0x0A0B_0C0D, 4);
        body.extend(e(s2, q2));
        if (idx / 4) % 2 == 1 {
            body.extend(e(0x0A0B_0C0D, if idx / 8 == 0 { 4 } else { 6 }));
        }
        home_case(l, F::Fir, &body, idx);
    });
    // FIR: 0..=3 entries over walk-ish values (+0 / 4 trailing bytes)
    let fe: [[u8; 8]; 8] = [
        [0, 0, 0, 0, 0, 0, 0, 0],
        [0xFF; 8],
        [1, 2, 3, 4, 5, 0, 0, 0],
        [0, 0, 0, 1, 0xFF, 0, 0, 0],
        [0x80, 0, 0, 0, 0x80, 1, 2, 3],
        [0, 0, 0, 0, 1, 0xFF, 0xFF, 0xFF],
        [0xFE, 0xDC, 0xBA, 0x98, 0x30, 0, 0, 0],
        [0, 0xFF, 0, 0xFF, 0x7F, 0, 0, 0],
    ];
    ctx.run_space("fir-entry-lists", seq_count(8, 3) * 2, move |idx, l| {
        let s = seq_decode(8, idx / 2);
        let mut body: Vec<u8> = s.iter().flat_map(|&i| fe[i as usize]).collect();
        if idx % 2 == 1 {
            body.extend_from_slice(&[9, 9, 9, 9]);
        }
        home_case(l, F::Fir, &body, idx);
    });
    // RPSI: byte0 x byte1 x length
    ctx.run_space("rpsi-pb-x-pt-x-length", 65536 * 9, |idx, l| {
        let b0 = (idx % 256) as u8;
        let b1 = ((idx / 256) % 256) as u8;
        let len = 4 * (1 + idx / 65536) as usize;
        let mut body = vec![0u8; len];
        for (i, x) in body.iter_mut().enumerate() {
            *x = (i as u8).wrapping_mul(29).wrapping_add(0xA1);
        }
        body[0] = b0;
        body[1] = b1;
        home_case(l, F::Rpsi, &body, idx);
    });
    ctx.run_space("pli-lengths", 3, |idx, l| {
        home_case(l, F::Pli, &vec![0u8; 4 * idx as usize], 0);
    });
    // PLI bodies of every length 0, 4 ... 256 bytes in eight fills, among them the ones that look like something
    // legitimate: all zeros, a padding trailer that nobody announced (zeros ending in the body's own length, in 4, in
    // 1), all ones, a single set bit at either end - the body of a PLI is empty, whatever it would look like
    ctx.bound("pli bodies", "lengths 0..=256 bytes (multiples of 4) x 8 fills incl. unannounced padding trailers; through parse_fci and through Pli::parse");
    ctx.run_space("pli-bodies", 65 * 8, |idx, l| {
        let n = 4 * (idx % 65) as usize;
        let mut body = vec![0u8; n];
        if n > 0 {
            match idx / 65 {
                0 => {}
                1 => body[n - 1] = n as u8,
                2 => body[n - 1] = 4,
                3 => body[n - 1] = 1,
                4 => body.iter_mut().for_each(|b| *b = 0xFF),
                5 => body[0] = 0x80,
                6 => body[0] = (n as u8).wrapping_sub(1),
                _ => body.iter_mut().enumerate().for_each(|(i, b)| *b = (i as u8).wrapping_mul(37) | 1),
            }
        }
        home_case(l, F::Pli, &body, idx);
        direct_case(l, &body);
    });
    // gating: boundary bodies under every (kind, format) and every requested type
    let mut gate_bodies: Vec<Vec<u8>> = vec![vec![], vec![0; 4], vec![0xFF; 4], vec![0; 8], vec![0xFF; 8], vec![0; 12], vec![0x08, 0x60, 0xF0, 0x00], vec![0x00, 0x00, 0x12, 0x34, 0x56, 0x78, 0x9A, 0xBC]];
    for w in bw {
        gate_bodies.push(w.to_be_bytes().to_vec());
        let mut two = w.to_be_bytes().to_vec();
        two.extend_from_slice(&(!w).to_be_bytes());
        gate_bodies.push(two);
    }
    for e in fe {
        gate_bodies.push(e.to_vec());
        let mut two = e.to_vec();
        two.extend_from_slice(&fe[6]);
        gate_bodies.push(two);
    }
    for pb in [0u8, 7, 8, 9, 16, 24, 31, 32, 255] {
        gate_bodies.push(vec![pb, 0x7F, 0xAA, 0xBB]);
        gate_bodies.push(vec![pb, 0x80, 0xAA, 0xBB, 1, 2, 3, 4]);
    }
    let ng = gate_bodies.len() as u64;
    // every gate is also tried with the padding bit set (paddings 4, 8, 252): the format number shares its byte
    // with the padding bit
    ctx.run_space("all-gates-x-boundary-bodies-x-padding", ng * 4, move |idx, l| all_gates_case(l, &gate_bodies[(idx / 4) as usize], [0u8, 4, 8, 252][(idx % 4) as usize]));
    // padding counts that are not a multiple of 4 (the parsers tolerate them): the FCI is then a byte string whose
    // length is not a multiple of 4, ending where the padding starts
    let odd_pads: Vec<u8> = (1..=15u8).filter(|p| p % 4 != 0).collect();
    let first: [u8; 6] = [0x00, 0x08, 0x10, 0x60, 0xFF, 0x03];
    let nop = odd_pads.len() as u64;
    ctx.bound("odd padding counts", "FCI lengths 0..=17 x padding counts {1,2,3,5,6,7,9,10,11,13,14,15} (where the sum is a multiple of 4) x 6 first bytes x 5 FCI types under their own gate");
    ctx.run_space("odd-padding-counts", 18 * nop * 6 * 5, move |idx, l| {
        let f = FS[(idx % 5) as usize];
        let b0 = first[((idx / 5) % 6) as usize];
        let pad = odd_pads[((idx / 30) % nop) as usize];
        let blen = (idx / (30 * nop)) as usize;
        l.evals += 1;
        if (blen + pad as usize) % 4 != 0 {
            l.hit("(length + padding not a multiple of 4: no such packet)");
            return;
        }
        l.states += 1;
        let mut body: Vec<u8> = (0..blen).map(|i| (i as u8).wrapping_mul(37).wrapping_add(0x41)).collect();
        if blen > 0 {
            body[0] = b0;
        }
        l.sample(|| format!("{} fci {} + {} padding bytes", f.name(), hex_short(&body), pad));
        l.nontrivial(crate::engine::run::fp_combine(fp_bytes(&body), (f as u64) << 8 | pad as u64));
        let (kind, fmt) = f.home();
        gate_case_x(l, kind, fmt, f, &body, pad, false);
    });
    // long lists: 255..65533 words (the largest FCI a packet can carry), where a narrow index or offset would wrap
    let sizes: [usize; 9] = [255, 256, 257, 16_383, 16_384, 16_385, 32_768, 65_532, 65_533];
    ctx.bound("long lists", "NACK / SLI lists of {255,256,257,16383,16384,16385,32768,65532,65533} words, FIR lists of half as many entries, RPSI strings of 4x as many bytes; 3 fills");
    ctx.run_space("long-lists", 9 * 3 * 4, move |idx, l| {
        let f = [F::Nack, F::Sli, F::Fir, F::Rpsi][(idx % 4) as usize];
        let fill = (idx / 4) % 3;
        let mut words = sizes[(idx / 12) as usize];
        if f == F::Fir {
            words &= !1;
        }
        let mut body = vec![0u8; 4 * words];
        for (i, b) in body.iter_mut().enumerate() {
            *b = match fill {
                0 => 0x00,
                1 => 0xFF,
                _ => ((i as u32 / 4).wrapping_mul(0x9E37_79B1).rotate_left(8 * (i as u32 % 4)) >> 11) as u8,
            };
        }
        if f == F::Rpsi {
            body[0] = [0u8, 8, 23][fill as usize];
        }
        home_case(l, f, &body, 0);
    });
    // iterator call histories on the FCI iterators: every sequence of next / nth / take-count calls up to a depth,
    // then collect / count / last, against the entry list plain next() calls give (compared with the reference
    // decoder first)
    {
        let depth = ctx.tier.pick(3u32, 4u32);
        let nack_lists: Vec<Vec<u32>> = vec![
            vec![0x0064_0001, 0x0065_0000],
            vec![0x0005_FFFF, 0x0028_8001, 0xFFFF_0001],
            vec![0x1234_0000],
            vec![0xFFF0_FFFF, 0x0000_0000, 0x0001_8000, 0x7FFF_0101, 0x8000_FFFE],
            vec![],
        ];
        ctx.bound("iterator histories", format!("Nack::entries over 5 short word lists and lists of 33..376 words, Fir::entries and Sli::lost_macroblocks over 0..=5 entries with and without a trailing partial entry and over 33..300 entries: all call sequences of length <= {} over {{next, nth(0), nth(1), nth(2), nth(7), take(2).count()}} x 10 endings with size_hint() after every call, over those plus {{size_hint(), observe(), a second iterator over the same value}} placed by the history, and short ones with other values parsed and iterated between any two calls", depth));
        // (FCI type, body): the short lists, then lists longer than any batch, scratch or inline capacity an
        // implementation is likely to choose (33 ... 376 words / entries), where a second value is being iterated while
        // the first iterator is alive (the histories' decoy pass and their observe() operation)
        let mut bodies: Vec<(F, Vec<u8>)> = Vec::new();
        for wl in &nack_lists {
            bodies.push((F::Nack, wl.iter().flat_map(|w| w.to_be_bytes()).collect()));
        }
        for k in 0..12u64 {
            // 0..=5 entries, with and without a trailing half entry (which the parser tolerates)
            bodies.push((F::Fir, (0..(k / 2) * 8 + (k % 2) * 4).map(|i| (i as u8).wrapping_mul(37).wrapping_add(1)).collect()));
        }
        for k in 0..12u64 {
            // 0..=5 entries, with and without 1..3 trailing bytes
            bodies.push((F::Sli, (0..(k / 2) * 4 + (k % 2) * (1 + k / 4)).map(|i| (i as u8).wrapping_mul(91).wrapping_add(3)).collect()));
        }
        for &n in &[33u32, 40, 65, 129, 297, 300, 375, 376] {
            // PIDs 23 apart; masks cycle through empty, one bit, a few bits, full
            bodies.push((F::Nack, (0..n).flat_map(|i| ((((i * 23 + 5) & 0xFFFF) << 16) | [0u32, 0x0001, 0x8000, 0x0810, 0xFFFF, 0x00FF][(i % 6) as usize]).to_be_bytes()).collect()));
        }
        for &n in &[33u32, 65, 129, 300] {
            bodies.push((F::Fir, (0..n * 8).map(|i| (i as u8).wrapping_mul(37).wrapping_add((i >> 8) as u8)).collect()));
            bodies.push((F::Sli, (0..n * 4).map(|i| (i as u8).wrapping_mul(91).wrapping_add((i >> 8) as u8)).collect()));
        }
        let nb = bodies.len() as u64;
        ctx.run_space("iterator-histories", nb, move |idx, l| {
            l.evals += 1;
            let (which, body) = bodies[idx as usize].clone();
            // the long lists at a smaller depth: the cost of a history grows with the list
            let depth = if body.len() > 64 { depth.min(3) } else { depth };
            l.sample(|| format!("iterator histories on {} fci {}", which.name(), hex_short(&body)));
            l.nontrivial(crate::engine::run::fp_combine(fp_bytes(&body), 0x17E4 + which as u64));
            let show = || format!("{} fci {}", which.name(), hex_short(&body));
            let cap = 17 * body.len() + 8;
            let r = guard::catch(|| -> Result<(), String> {
                use super::common::{iterator_histories, iterator_reference};
                match which {
                    F::Nack => {
                        let x = <Nack as FciParser>::parse(&body).map_err(|e| format!("{:?}", e))?;
                        let reference = iterator_reference(x.entries(), cap);
                        let want: Vec<u64> = read::nack_unpack(&body).iter().map(|v| crate::engine::run::fp_debug(v)).collect();
                        if reference != want {
                            return Err("entries() differs from the reference decoding".into());
                        }
                        iterator_histories(l, "Nack::entries", &|| x.entries(), &reference, depth, &show);
                    }
                    F::Fir => {
                        let x = match <Fir as FciParser>::parse(&body) {
                            Ok(x) => x,
                            Err(_) => return Ok(()), // an FCI this parser refuses has no iterator to drive
                        };
                        let reference = iterator_reference(x.entries(), cap);
                        if reference.len() != body.len() / 8 {
                            return Err(format!("entries() yields {} entries for {} bytes", reference.len(), body.len()));
                        }
                        iterator_histories(l, "Fir::entries", &|| x.entries(), &reference, depth, &show);
                    }
                    _ => {
                        let x = match <Sli as FciParser>::parse(&body) {
                            Ok(x) => x,
                            Err(_) => return Ok(()),
                        };
                        let reference = iterator_reference(x.lost_macroblocks(), cap);
                        if reference.len() != body.len() / 4 {
                            return Err(format!("lost_macroblocks() yields {} entries for {} bytes", reference.len(), body.len()));
                        }
                        iterator_histories(l, "Sli::lost_macroblocks", &|| x.lost_macroblocks(), &reference, depth, &show);
                    }
                }
                Ok(())
            });
            match r {
                Err(pi) => l.subject_panic("iterator-history", &pi, show),
                Ok(Err(m)) => l.violation("iterator-history:setup", show, || m),
                Ok(Ok(())) => {}
            }
        });
        ctx.require_hit("iterator history agrees with repeated next()");
    }
    // direct FCI parsers
    let sp = bytes::fci_raw_space();
    super::bytes::placement_bound(ctx);
    sp.run(ctx, &format!("direct:{}", sp.name), super::bytes::cross_limit(ctx), |s, l| direct_case(l, s));
    for f in FS {
        ctx.require_hit(f.ok_bucket());
    }
    ctx.require_hit("gated out");
    ctx.require_hit("direct: decoded");
    ctx.require_hit("direct: rejected");
}
