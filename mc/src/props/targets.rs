//! "Anything that writes": a uniform view over packet builders (in every flavour), FCI builders
//! alone, SDES chunk / item builders alone, compounds and third-party writers — with, for each,
//! the reference verdict (representable or which rules are broken) and the reference image.

use super::gens::{self, CfgSpace};
use crate::engine::run::Tier;
use crate::engine::space::*;
use crate::refmodel::model::*;
use crate::refmodel::repr::{self, Broken, WErr};
use crate::refmodel::wire;
use crate::subject::build::{self, DynW, Variant};
use crate::subject::ext;
use rtcp_types::prelude::*;

#[derive(Clone, Debug)]
pub enum Target {
    Pkt(Pkt, Variant),
    Fci(Fci, bool),
    Chunk(Chunk, bool),
    Item(Item, bool),
    Compound(Vec<Member>),
    /// the same, added to a compound builder that is queried (size + scratch write) after every add_packet
    CompoundProbed(Vec<Member>),
    Ext { pt: u8, min: usize, count: u8, ssrc: u32, words: Vec<u32>, pad: u8 },
}

pub trait AnyWriter {
    fn size(&self) -> Result<usize, WErr>;
    fn write(&self, buf: &mut [u8]) -> Result<usize, WErr>;
    /// the public `write_into_unchecked` (None where the unchecked writer is not public: SDES chunk / item builders)
    fn write_unchecked(&self, _buf: &mut [u8]) -> Option<usize> {
        None
    }
}

impl<'a> AnyWriter for DynW<'a> {
    fn write_unchecked(&self, buf: &mut [u8]) -> Option<usize> {
        Some(self.0.write_into_unchecked(buf))
    }
    fn size(&self) -> Result<usize, WErr> {
        self.0.calculate_size().map_err(build::werr)
    }
    fn write(&self, buf: &mut [u8]) -> Result<usize, WErr> {
        self.write_into(buf).map_err(build::werr)
    }
}

struct ChunkW<'a>(rtcp_types::SdesChunkBuilder<'a>);
impl<'a> AnyWriter for ChunkW<'a> {
    /// the chunk builder's size calculation is private; it is observed through the
    /// OutputTooSmall(n) its public write_into returns on an empty buffer (n >= 8 always)
    fn size(&self) -> Result<usize, WErr> {
        match self.0.write_into(&mut []) {
            Err(rtcp_types::RtcpWriteError::OutputTooSmall(n)) => Ok(n),
            Err(e) => Err(build::werr(e)),
            Ok(n) => Ok(n),
        }
    }
    fn write(&self, buf: &mut [u8]) -> Result<usize, WErr> {
        self.0.write_into(buf).map_err(build::werr)
    }
}

struct ItemW<'a>(rtcp_types::SdesItemBuilder<'a>);
impl<'a> AnyWriter for ItemW<'a> {
    fn size(&self) -> Result<usize, WErr> {
        match self.0.write_into(&mut []) {
            Err(rtcp_types::RtcpWriteError::OutputTooSmall(n)) => Ok(n),
            Err(e) => Err(build::werr(e)),
            Ok(n) => Ok(n),
        }
    }
    fn write(&self, buf: &mut [u8]) -> Result<usize, WErr> {
        self.0.write_into(buf).map_err(build::werr)
    }
}

impl Target {
    pub fn with_writer(&self, f: &mut dyn FnMut(&dyn AnyWriter)) {
        match self {
            Target::Pkt(p, var) => build::with_writer(p, *var, &mut |w| f(&DynW(w))),
            Target::Fci(fci, owned) => build::with_fci_writer(fci, *owned, &mut |w| f(&DynW(w))),
            Target::Chunk(c, owned) => f(&ChunkW(build::chunk_builder(c, *owned))),
            Target::Item(it, owned) => f(&ItemW(build::item_builder(it, *owned))),
            Target::Compound(ms) => {
                let cb = build::compound_builder(ms);
                f(&DynW(&cb))
            }
            Target::CompoundProbed(ms) => {
                let cb = build::compound_builder_p(ms, true);
                f(&DynW(&cb))
            }
            Target::Ext { pt, min, count, ssrc, words, pad } => ext::with_ext_writer(*pt, *min, *count, *ssrc, words, *pad, &mut |w| f(&DynW(w))),
        }
    }

    /// whole packets (and compounds of them) must have a size that is a multiple of 4
    pub fn whole_packet(&self) -> bool {
        !matches!(self, Target::Fci(..) | Target::Item(..))
    }

    pub fn site(&self) -> String {
        match self {
            Target::Pkt(p, var) => {
                if *var == Variant::PLAIN {
                    p.builder_name()
                } else {
                    format!("{}[{}{:?}]", p.builder_name(), if var.owned { "owned," } else { "" }, var.wrap)
                }
            }
            Target::Fci(f, _) => format!("{}Builder", f.name()),
            Target::Chunk(..) => "SdesChunkBuilder".into(),
            Target::Item(..) => "SdesItemBuilder".into(),
            Target::Compound(_) | Target::CompoundProbed(_) => "CompoundBuilder".into(),
            Target::Ext { .. } => "ExtBuilder(third-party)".into(),
        }
    }

    /// builder type name without flavour (for stable known-finding keys)
    pub fn builder(&self) -> String {
        match self {
            Target::Pkt(p, _) => p.builder_name(),
            _ => self.site(),
        }
    }

    pub fn short(&self) -> String {
        let s = match self {
            Target::Pkt(p, var) => format!("{} via {:?}", p.short(), var),
            other => format!("{:?}", other),
        };
        if s.len() > 900 {
            let head: String = s.chars().take(700).collect();
            format!("{} ...[{} chars]", head, s.len())
        } else {
            s
        }
    }

    /// the rules of C16 this target violates (empty = must be accepted)
    pub fn broken(&self) -> Vec<Broken> {
        match self {
            Target::Pkt(p, _) => repr::broken_rules(p),
            Target::Fci(f, _) => {
                let mut out = Vec::new();
                repr::fci_rules(f, &mut out);
                if let Fci::Fir(v) = f {
                    // an FCI alone has no packet around it; the entry count that can never fit is still refused
                    if out.is_empty() && 12 + 8 * Fci::fir_map(v).len() > repr::MAX_PACKET_BYTES {
                        out.push(Broken { rule: "total-size-at-most-65536-words", admissible: vec![WErr::TooManyFir] });
                    }
                }
                out
            }
            Target::Chunk(c, _) => {
                let mut out = Vec::new();
                for it in &c.items {
                    repr::item_rules(it, &mut out);
                }
                out
            }
            Target::Item(it, _) => {
                let mut out = Vec::new();
                repr::item_rules(it, &mut out);
                out
            }
            Target::Compound(ms) | Target::CompoundProbed(ms) => members_broken(ms),
            Target::Ext { count, pad, .. } => {
                let mut out = Vec::new();
                if *count > 31 {
                    out.push(Broken { rule: "count-at-most-31", admissible: vec![WErr::CountOutOfRange { count: *count, max: 31 }] });
                }
                if pad % 4 != 0 {
                    out.push(Broken { rule: "padding-multiple-of-4", admissible: vec![WErr::InvalidPadding { padding: *pad }] });
                }
                out
            }
        }
    }

    /// the RFC image of a representable target
    pub fn image(&self) -> Vec<u8> {
        match self {
            Target::Pkt(p, _) => wire::encode(p),
            Target::Fci(f, _) => wire::encode_fci(f),
            Target::Chunk(c, _) => {
                let mut v = Vec::new();
                wire::encode_chunk(&mut v, c);
                v
            }
            Target::Item(it, _) => {
                let mut v = Vec::new();
                wire::encode_item(&mut v, &it.canonical());
                v
            }
            Target::Compound(ms) | Target::CompoundProbed(ms) => wire::encode_members(ms),
            Target::Ext { pt, count, ssrc, words, pad, .. } => wire::encode_ext(*pt, *count, *ssrc, words, *pad),
        }
    }

    pub fn fci(&self) -> Option<&Fci> {
        match self {
            Target::Pkt(Pkt::Fb { fci, .. }, _) => Some(fci),
            Target::Fci(f, _) => Some(f),
            _ => None,
        }
    }
}

fn member_padding(m: &Member) -> u8 {
    match m {
        Member::Plain(p) | Member::Wrapped(p) => p.pad(),
        Member::Ext { pad, .. } => *pad,
        Member::Nested(inner) => inner.last().map(member_padding).unwrap_or(0),
    }
}

/// C14 / C16 for member lists: every member valid, no member but the last requests padding.
pub fn members_broken(ms: &[Member]) -> Vec<Broken> {
    let mut out = Vec::new();
    for (i, m) in ms.iter().enumerate() {
        match m {
            Member::Plain(p) | Member::Wrapped(p) => out.extend(repr::broken_rules(p)),
            Member::Ext { count, pad, .. } => {
                if *count > 31 {
                    out.push(Broken { rule: "count-at-most-31", admissible: vec![WErr::CountOutOfRange { count: *count, max: 31 }] });
                }
                if pad % 4 != 0 {
                    out.push(Broken { rule: "padding-multiple-of-4", admissible: vec![WErr::InvalidPadding { padding: *pad }] });
                }
            }
            Member::Nested(inner) => out.extend(members_broken(inner)),
        }
        if i + 1 != ms.len() && member_padding(m) > 0 {
            out.push(Broken { rule: "no-padding-on-non-last-compound-member", admissible: vec![WErr::NonLastCompoundPacketPadding] });
        }
    }
    out
}

/// flattened leaf list of a member list
pub fn leaves(ms: &[Member]) -> Vec<Member> {
    let mut v = Vec::new();
    for m in ms {
        match m {
            Member::Nested(inner) => v.extend(leaves(inner)),
            other => v.push(other.clone()),
        }
    }
    v
}

// ------------------------------------------------------------------------------------------
// Target spaces

pub struct TargetSpace {
    pub name: String,
    pub len: u64,
    pub get: Box<dyn Fn(u64) -> Target + Sync + Send>,
    /// small spaces get every buffer length, large ones the boundary lengths plus a rotating one
    pub all_buffers: bool,
}

impl TargetSpace {
    pub fn new(name: &str, len: u64, all_buffers: bool, get: impl Fn(u64) -> Target + Sync + Send + 'static) -> TargetSpace {
        TargetSpace { name: name.to_string(), len, get: Box::new(get), all_buffers }
    }
}

fn from_cfg(sp: CfgSpace, rotate_variants: bool) -> TargetSpace {
    let variants = Variant::all();
    let get = sp.get;
    let all = sp.len <= 200_000;
    TargetSpace {
        name: sp.name,
        len: sp.len,
        all_buffers: all,
        get: Box::new(move |idx| {
            let var = if rotate_variants { variants[(idx % variants.len() as u64) as usize] } else { Variant::PLAIN };
            Target::Pkt(get(idx), var)
        }),
    }
}

/// The member menu of C14 (27 kinds).
pub fn member_menu() -> Vec<Member> {
    use Member::*;
    let rr = Pkt::Rr { ssrc: 0x0102_0304, blocks: vec![], pad: 0 };
    let bye = Pkt::Bye { ssrcs: vec![0x0A0B_0C0D], reason: String::new(), pad: 0 };
    vec![
        Plain(bye.clone()),
        Plain(rr.clone()),
        Plain(Pkt::App { ssrc: 7, subtype: 3, name: "name".into(), data: vec![1, 2, 3, 4], pad: 0 }),
        Plain(Pkt::Sr { ssrc: 9, ntp: 0x1112_1314_1516_1718, rtp: 2, pc: 3, oc: 4, blocks: vec![gens::sentinel_rb(0, 0)], pad: 0 }),
        Plain(Pkt::Sdes { chunks: vec![Chunk { ssrc: 0x0000_0100, items: vec![Item::new(1, b"ab")] }], pad: 0 }),
        Plain(Pkt::Fb { kind: Kind::Transport, sender: 1, media: 2, fci: Fci::Nack(vec![5, 6]), pad: 0 }),
        Plain(Pkt::Fb { kind: Kind::Payload, sender: 1, media: 2, fci: Fci::Pli, pad: 0 }),
        Plain(Pkt::Unknown { pt: 207, count: 2, data: vec![9, 8, 7, 6], pad: 0 }),
        Plain(Pkt::Bye { ssrcs: vec![], reason: "ab".into(), pad: 4 }),
        Plain(Pkt::App { ssrc: 7, subtype: 0, name: "x".into(), data: vec![], pad: 8 }),
        Plain(Pkt::Sdes { chunks: vec![Chunk { ssrc: 1, items: vec![] }], pad: 4 }),
        Plain(Pkt::Fb { kind: Kind::Payload, sender: 1, media: 2, fci: Fci::Sli(vec![(1, 2, 3)]), pad: 12 }),
        Plain(Pkt::Unknown { pt: 199, count: 0, data: vec![], pad: 4 }),
        Plain(Pkt::Rr { ssrc: 5, blocks: vec![], pad: 5 }),
        Wrapped(Pkt::Bye { ssrcs: vec![1, 2], reason: "xyz".into(), pad: 0 }),
        Wrapped(Pkt::Rr { ssrc: 6, blocks: vec![gens::sentinel_rb(1, 0)], pad: 4 }),
        // a padded packet of every other type behind the `PacketBuilder` wrapper (one `get_padding` arm per type)
        Wrapped(Pkt::Bye { ssrcs: vec![3], reason: String::new(), pad: 4 }),
        Wrapped(Pkt::App { ssrc: 7, subtype: 1, name: "wrap".into(), data: vec![], pad: 4 }),
        Wrapped(Pkt::Sdes { chunks: vec![Chunk { ssrc: 2, items: vec![] }], pad: 8 }),
        Wrapped(Pkt::Sr { ssrc: 9, ntp: 1, rtp: 2, pc: 3, oc: 4, blocks: vec![], pad: 4 }),
        Wrapped(Pkt::Fb { kind: Kind::Transport, sender: 1, media: 2, fci: Fci::Nack(vec![9]), pad: 4 }),
        Wrapped(Pkt::Fb { kind: Kind::Payload, sender: 1, media: 2, fci: Fci::Pli, pad: 4 }),
        Wrapped(Pkt::Unknown { pt: 199, count: 1, data: vec![1, 2, 3, 4], pad: 4 }),
        Ext { pt: 242, min: 12, count: 3, ssrc: 0x0E0E_0E0E, words: vec![0xDEAD_BEEF], pad: 0 },
        Nested(vec![]),
        Nested(vec![Plain(rr.clone()), Plain(bye.clone())]),
        Nested(vec![Plain(rr), Plain(Pkt::Bye { ssrcs: vec![], reason: String::new(), pad: 4 })]),
    ]
}

/// Compounds of many members of mixed sizes: n members for n around the sizes an implementation might pick for an
/// offset table or a batch (8, 16, 32, 64), in two size patterns, the last one optionally padded, one variant with a
/// third-party member that reports "no padding" as Some(0) in front of a padded last member inside a nested compound.
pub fn many_member_space() -> TargetSpace {
    let counts: [usize; 16] = [5, 7, 8, 9, 15, 16, 17, 18, 31, 32, 33, 34, 63, 64, 65, 100];
    TargetSpace::new("compound-many-members", 16 * 2 * 4, false, move |idx| {
        use Member::*;
        let n = counts[(idx % 16) as usize];
        let stride = if (idx / 16) % 2 == 0 { 1 } else { 3 };
        let kind = idx / 32;
        let pool = [
            Plain(Pkt::Bye { ssrcs: vec![], reason: String::new(), pad: 0 }),
            Plain(Pkt::Rr { ssrc: 0x0102_0304, blocks: vec![], pad: 0 }),
            Plain(Pkt::App { ssrc: 7, subtype: 3, name: "name".into(), data: vec![], pad: 0 }),
            Plain(Pkt::Bye { ssrcs: vec![1, 2, 3], reason: String::new(), pad: 0 }),
            Wrapped(Pkt::Unknown { pt: 207, count: 2, data: vec![9, 8, 7, 6, 5, 4, 3, 2], pad: 0 }),
        ];
        let mut ms: Vec<Member> = (0..n).map(|i| pool[(i * stride + i / 16) % pool.len()].clone()).collect();
        match kind {
            1 => {
                ms.pop();
                ms.push(Plain(Pkt::Rr { ssrc: 5, blocks: vec![], pad: 8 }));
            }
            3 => {
                // zero-sized third-party writers: a padded one in the middle, plain ones around it and at the end
                // (refused); with n even the padded one is last instead (accepted)
                let z = |pad: u8| Ext { pt: 242, min: 4, count: 0, ssrc: ext::ZST_SSRC, words: vec![], pad };
                ms = (0..n.min(9)).map(|_| z(0)).collect();
                let m = ms.len();
                if n % 2 == 0 {
                    ms[m - 1] = z(4);
                } else {
                    ms[m / 2] = z(4);
                }
            }
            2 => {
                // a nested compound [third-party member answering Some(0), padded BYE] in a non-last position: refused
                ms[n / 2] = Nested(vec![Ext { pt: 242, min: 12, count: 1, ssrc: 0x0E0E_0E0E, words: vec![1], pad: 0 }, Plain(Pkt::Bye { ssrcs: vec![], reason: String::new(), pad: 4 })]);
            }
            _ => {}
        }
        Target::Compound(ms)
    })
}

/// Compounds of every member count 1..=`max` (see `gens::dense_bound`): flat, flat with the last member padded, and
/// the same list as a nested compound followed by a BYE.
pub fn every_member_count_space(max: usize) -> TargetSpace {
    TargetSpace::new("compound-every-member-count", max as u64 * 3, false, move |idx| {
        use Member::*;
        let n = (idx / 3) as usize + 1;
        let kind = idx % 3;
        let pool = [
            Plain(Pkt::Bye { ssrcs: vec![], reason: String::new(), pad: 0 }),
            Plain(Pkt::Rr { ssrc: 0x0102_0304, blocks: vec![], pad: 0 }),
            Plain(Pkt::App { ssrc: 7, subtype: 3, name: "name".into(), data: vec![], pad: 0 }),
            Plain(Pkt::Bye { ssrcs: vec![1, 2, 3], reason: String::new(), pad: 0 }),
            Wrapped(Pkt::Unknown { pt: 207, count: 2, data: vec![9, 8, 7, 6, 5, 4, 3, 2], pad: 0 }),
        ];
        let mut ms: Vec<Member> = (0..n).map(|i| pool[(i * 2 + i / 16 + n) % pool.len()].clone()).collect();
        match kind {
            1 => {
                ms.pop();
                ms.push(Plain(Pkt::Rr { ssrc: 5, blocks: vec![], pad: 8 }));
            }
            2 => {
                ms = vec![Nested(ms), Plain(Pkt::Bye { ssrcs: vec![0xB1E], reason: String::new(), pad: 0 })];
            }
            _ => {}
        }
        Target::Compound(ms)
    })
}

/// Compounds of every total size 28, 32 ... 4 * `max_words` bytes made of three unremarkable members (an APP and an
/// unknown packet that share the slack in a proportion that moves with the size, and a BYE), flat or with the first
/// two in a nested compound.
pub fn every_total_size_space(max_words: usize) -> TargetSpace {
    TargetSpace::new("compound-every-total-size", (max_words as u64 - 6) * 2, false, move |idx| {
        use Member::*;
        let w = (idx / 2) as usize + 7;
        let slack = w - 2 - 3 - 1; // beyond the BYE (2 words), the APP's fixed part (3) and the unknown header (1)
        let x = slack * (w % 7) / 6; // APP payload words: 0..=slack (w % 7 == 6 gives it all)
        let y = slack - x.min(slack);
        let x = x.min(slack);
        let app = Plain(Pkt::App { ssrc: 0x0A0B_0C0D, subtype: (w % 32) as u8, name: "totl".into(), data: (0..x * 4).map(|i| (i as u8).wrapping_mul(7) | 1).collect(), pad: 0 });
        let unk = Plain(Pkt::Unknown { pt: 209, count: (w % 31) as u8, data: (0..y * 4).map(|i| (i as u8).wrapping_mul(11) | 1).collect(), pad: 0 });
        let bye = Plain(Pkt::Bye { ssrcs: vec![w as u32], reason: String::new(), pad: 0 });
        let ms = if idx % 2 == 0 { vec![app, unk, bye] } else { vec![Nested(vec![unk, app]), bye] };
        Target::Compound(ms)
    })
}

pub fn compound_space(depth: u32) -> TargetSpace {
    let menu = member_menu();
    let k = menu.len() as u64;
    TargetSpace::new(&format!("compound-member-lists-depth-{}", depth), seq_count(k, depth), false, move |idx| {
        Target::Compound(seq_decode(k, idx).iter().map(|&i| menu[i as usize].clone()).collect())
    })
}

pub fn ext_space() -> TargetSpace {
    let pads = pad_all();
    let r = Radix::new(&[ext::EXT_PTS.len() as u64, ext::EXT_MINS.len() as u64, 34, 9, 64 + 9]);
    let rl = r.len();
    TargetSpace::new("ext-third-party-writers", rl, false, move |idx| {
        let c = r.coords(idx);
        let pad = if c[4] < 64 { pads[c[4] as usize] } else { PAD_BAD[(c[4] - 64) as usize] };
        Target::Ext {
            pt: ext::EXT_PTS[c[0] as usize],
            min: ext::EXT_MINS[c[1] as usize],
            count: if c[2] < 33 { c[2] as u8 } else { 255 },
            ssrc: 0x0E0E_0E00 | c[3] as u32,
            words: (0..c[3]).map(|i| 0xB000_0000 | (i as u32 * 0x0101) ^ idx as u32).collect(),
            pad,
        }
    })
}

/// SDES chunk and item builders on their own, and FCI builders on their own.
pub fn part_spaces(tier: Tier, seed: u64) -> Vec<TargetSpace> {
    let mut v = Vec::new();
    // items: every value length 0..=257 x kinds (8) incl. PRIV prefix lengths, owned / borrowed
    v.push(TargetSpace::new("sdes-item-alone", 258 * 10 * 2, true, move |idx| {
        let owned = idx % 2 == 1;
        let kind = (idx / 2) % 10;
        let len = (idx / 20) as usize;
        let value = text(len, seed ^ idx, false).into_bytes();
        let it = match kind {
            0 => Item::new(1, &value),
            1 => Item::new(255, &value),
            2 => Item::new(9, &value),
            3 => Item { ty: 2, prefix: vec![1, 2, 3], value }, // prefix on a non-PRIV item has no effect
            4 => Item::priv_(b"", &value),
            5 => Item::priv_(b"p", &value),
            6 => Item::priv_(&[0u8; 100], &value),
            7 => Item::priv_(&[7u8; 254], &value),
            8 => Item::priv_(&[7u8; 255], &value),
            _ => Item::priv_(&vec![1u8; 254usize.saturating_sub(len)], &value),
        };
        Target::Item(it, owned)
    }));
    // chunks: two items with lengths (0..=20)^2 and one over-long item position
    let r = Radix::new(&[21, 21, 4, 2]);
    let rl = r.len();
    v.push(TargetSpace::new("sdes-chunk-alone", rl, true, move |idx| {
        let c = r.coords(idx);
        let mut items = vec![Item::new(1, text(c[0] as usize, idx, false).as_bytes()), Item::priv_(b"ab", text(c[1] as usize, idx ^ 1, false).as_bytes())];
        match c[2] {
            1 => items.truncate(1),
            2 => items.clear(),
            3 => items.push(Item::new(2, &vec![b'x'; 256])),
            _ => {}
        }
        Target::Chunk(Chunk { ssrc: [0, 0x0102_0304, 0xFF, 0xFFFF_FFFF][(idx % 4) as usize], items }, c[3] == 1)
    }));
    // FCI builders alone: reuse the feedback spaces, keep the FCI
    for sp in gens::fb_spaces(tier, seed) {
        let get = sp.get;
        let stride = if sp.len > 300_000 { 7 } else { 1 };
        v.push(TargetSpace::new(&format!("fci-alone:{}", sp.name), sp.len / stride, sp.len / stride <= 200_000, move |idx| match get(idx * stride) {
            Pkt::Fb { fci, .. } => Target::Fci(fci, idx % 2 == 1),
            _ => unreachable!(),
        }));
    }
    v
}

/// Every writer target of the builder-side properties: representable ones (all flavours),
/// rule-boundary ones (accepted and rejected), parts, compounds, third-party writers.
pub fn all_target_spaces(tier: Tier, seed: u64) -> Vec<TargetSpace> {
    let mut v: Vec<TargetSpace> = gens::all_valid_spaces(tier, seed).into_iter().map(|s| from_cfg(s, true)).collect();
    v.extend(super::rules::rule_spaces(tier).into_iter().map(|s| from_cfg(s, true)));
    v.extend(part_spaces(tier, seed));
    v.push(compound_space(tier.pick(3, 4)));
    v.push(many_member_space());
    v.push(every_member_count_space(tier.pick(450, 1200)));
    v.push(every_total_size_space(tier.pick(1200, 4096)));
    v.push(ext_space());
    v
}
