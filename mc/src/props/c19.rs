//! C19: third-party packet types built on the public helpers, and raw packets from UnknownBuilder.

use super::bytes;
use super::compound::c14_case;
use super::gens;
use super::targets::{ext_space, Target};
use crate::engine::guard;
use crate::engine::json::hex_short;
use crate::engine::run::{fp_bytes, fp_combine, Ctx, Local};
use crate::engine::space::*;
use crate::refmodel::model::*;
use crate::refmodel::read;
use crate::refmodel::repr::WErr;
use crate::refmodel::wire;
use crate::subject::build::{self, Variant};
use crate::subject::ext::{self, EXT_MINS, EXT_PTS};
use rtcp_types::prelude::*;
use rtcp_types::utils::writer;
use rtcp_types::*;

fn helper_header_case(idx: u64, l: &mut Local) {
    const SIZES: [usize; 17] = [4, 8, 12, 16, 20, 24, 28, 32, 36, 40, 44, 48, 52, 56, 60, 64, 262144];
    let r = Radix::new(&[24, 256, 32, 17]);
    let c = r.coords(idx);
    let pt = EXT_PTS[(c[0] % 6) as usize];
    let min = EXT_MINS[(c[0] / 6) as usize];
    let (padding, count, size) = (c[1] as u8, c[2] as u8, SIZES[c[3] as usize]);
    l.evals += 1;
    l.states += 1;
    l.sample(|| format!("write_header_unchecked::<Ext<{},{}>>(padding={}, count={}, buf of {})", pt, min, padding, count, size));
    l.nontrivial(idx);
    let mut buf = vec![0xA5u8; size];
    l.transitions += 1;
    let r = guard::catch(|| ext::ext_write_header(pt, min, padding, count, &mut buf));
    l.validated += 1;
    match r {
        Err(pi) => l.subject_panic("write_header_unchecked", &pi, || format!("pt {} padding {} count {} size {}", pt, padding, count, size)),
        Ok(n) => {
            let words = (size / 4 - 1) as u16;
            let want = [0x80 | if padding > 0 { 0x20 } else { 0 } | count, pt, (words >> 8) as u8, words as u8];
            if n != 4 {
                l.violation("helper:write_header_unchecked:return-value", || format!("pt {} padding {} count {} size {}", pt, padding, count, size), || format!("returned {}", n));
            } else if buf[..4] != want {
                l.violation("helper:write_header_unchecked:header-bytes", || format!("pt {} padding {} count {} size {}", pt, padding, count, size), || format!("wrote {:02x?}, expected {:02x?}", &buf[..4], want));
            } else if buf[4..].iter().any(|&b| b != 0xA5) {
                l.violation("helper:write_header_unchecked:touches-more-than-4-bytes", || format!("pt {} padding {} count {} size {}", pt, padding, count, size), || "a byte beyond the header changed".to_string());
            } else {
                l.hit("header helper ok");
            }
        }
    }
}

fn helper_padding_case(idx: u64, l: &mut Local) {
    let p = (idx % 256) as u8;
    let slack = (idx / 256) as usize;
    let size = p as usize + slack;
    l.evals += 1;
    l.states += 1;
    l.sample(|| format!("write_padding_unchecked({}, buf of {}) and check_padding({})", p, size, p));
    l.nontrivial(fp_combine(idx, 77));
    let mut buf = vec![0xA5u8; size];
    l.transitions += 2;
    l.validated += 2;
    match guard::catch(|| writer::write_padding_unchecked(p, &mut buf)) {
        Err(pi) => l.subject_panic("write_padding_unchecked", &pi, || format!("padding {} size {}", p, size)),
        Ok(n) => {
            let pu = p as usize;
            let ok_ret = n == pu;
            let ok_bytes = (0..size).all(|i| buf[i] == if pu > 0 && i + 1 < pu { 0 } else if pu > 0 && i + 1 == pu { p } else { 0xA5 });
            if !ok_ret {
                l.violation("helper:write_padding_unchecked:return-value", || format!("padding {} size {}", p, size), || format!("returned {}", n));
            } else if !ok_bytes {
                l.violation("helper:write_padding_unchecked:bytes", || format!("padding {} size {}", p, size), || format!("buffer {}", hex_short(&buf)));
            } else {
                l.hit("padding helper ok");
            }
        }
    }
    let want = if p % 4 == 0 { Ok(()) } else { Err(WErr::InvalidPadding { padding: p }) };
    let got = writer::check_padding(p).map_err(build::werr);
    if got != want {
        l.violation("helper:check_padding", || format!("padding {}", p), || format!("{:?}", got));
    }
}

/// three-valued framing classifier for check_packet::<P> with P = (pt, min)
fn check_packet_case(s: &[u8], l: &mut Local) {
    l.evals += 1;
    l.states += 1;
    l.sample(|| hex_short(s));
    let mut any = false;
    for &pt in EXT_PTS.iter() {
        for &min in EXT_MINS.iter() {
            l.transitions += 1;
            let r = match guard::catch(|| ext::ext_check(pt, min, s)) {
                Err(pi) => {
                    l.subject_panic("check_packet", &pi, || format!("Ext<{},{}> {}", pt, min, hex_short(s)));
                    continue;
                }
                Ok(r) => r,
            };
            l.validated += 1;
            let defects = read::framing_defects(s, Some(pt), min);
            if !defects.is_empty() {
                if r.is_ok() {
                    l.violation(format!("check_packet-accepts-ill-framed:{}", defects[0]), || format!("Ext<{},{}> {}", pt, min, hex_short(s)), || format!("{:?}", defects));
                } else {
                    l.hit("check_packet: ill-framed rejected");
                }
                continue;
            }
            any = true;
            let h = read::header(s).unwrap();
            let padn = if h.p { *s.last().unwrap() as usize } else { 0 };
            let pad_plain = !h.p || (padn % 4 == 0 && padn <= s.len() - min);
            if pad_plain {
                if let Err(e) = r {
                    l.violation("check_packet-rejects-well-framed", || format!("Ext<{},{}> {}", pt, min, hex_short(s)), || format!("{:?}", e));
                } else {
                    l.hit("check_packet: well-framed accepted");
                }
            } else {
                l.hit("check_packet: odd padding count (either)");
            }
        }
    }
    if any {
        l.nontrivial(fp_bytes(s));
    }
    super::common::header_field_readers_case(l, s);
}

/// written bytes of a third-party writer / UnknownBuilder: generic parse, exposure, conversion back
fn written_case(t: &Target, l: &mut Local) {
    l.evals += 1;
    l.states += 1;
    l.sample(|| t.short());
    let broken = t.broken();
    if !broken.is_empty() {
        // "any word-aligned payload, any legal padding, count 0..=31": a configuration outside that is not a raw
        // packet at all, and the unknown-packet builder must not write one (oversize is C16's known finding)
        if broken.iter().all(|b| b.rule != "total-size-at-most-65536-words") {
            let mut accepted = None;
            let r = guard::catch(|| t.with_writer(&mut |w| accepted = Some(w.size())));
            if let (Ok(()), Some(Ok(n))) = (r, accepted) {
                l.violation(format!("unrepresentable-raw-packet-accepted:{}:{}", broken[0].rule, t.builder()), || t.short(), || format!("calculate_size() = Ok({}), violated: {:?}", n, broken.iter().map(|b| b.rule).collect::<Vec<_>>()));
                return;
            }
        }
        l.hit("unrepresentable target refused");
        return;
    }
    let mut bytes: Option<Vec<u8>> = None;
    l.transitions += 2;
    let r = guard::catch(|| {
        t.with_writer(&mut |w| {
            if let Ok(n) = w.size() {
                let mut buf = vec![0xA5u8; n];
                if w.write(&mut buf) == Ok(n) {
                    bytes = Some(buf);
                }
            }
        })
    });
    if let Err(pi) = r {
        l.subject_panic(&format!("write:{}", t.builder()), &pi, || t.short());
        return;
    }
    let bytes = match bytes {
        Some(b) => b,
        None => {
            l.violation(format!("representable-target-not-written:{}", t.builder()), || t.short(), || "calculate_size / write_into failed".to_string());
            return;
        }
    };
    l.nontrivial(fp_bytes(&bytes));
    let want = t.image();
    if bytes != want {
        l.violation(format!("written-image-differs:{}", t.builder()), || t.short(), || format!("written {} expected {}", hex_short(&bytes), hex_short(&want)));
        return;
    }
    let pt = bytes[1];
    if (200..=206).contains(&pt) {
        l.hit("known packet type number (generic parser dispatches to the typed parser)");
        return;
    }
    l.transitions += 1;
    l.validated += 1;
    // read back at a rotating address residue (engine::place)
    crate::placed!(l, bytes);
    let r = guard::catch(|| Packet::parse(&bytes));
    let p = match r {
        Err(pi) => {
            l.subject_panic("Packet::parse", &pi, || hex_short(&bytes));
            return;
        }
        Ok(Err(e)) => {
            l.violation(format!("written-packet-rejected:{}", t.builder()), || format!("{} -> {}", t.short(), hex_short(&bytes)), || format!("{:?}", e));
            return;
        }
        Ok(Ok(p)) => p,
    };
    let u = match &p {
        Packet::Unknown(u) => u,
        other => {
            l.violation("written-packet-not-unknown", || hex_short(&bytes), || format!("{:?}", other));
            return;
        }
    };
    if u.data() != &bytes[..] || u.data().as_ptr() != bytes.as_ptr() {
        l.violation("unknown-does-not-expose-bytes", || hex_short(&bytes), || format!("{:02x?}", u.data()));
        return;
    }
    // "can be embedded in compounds", read side: the written packet followed by another packet in one datagram (legal
    // on the wire even when the first one is padded) comes out of the compound iteration as this unknown packet,
    // then the other one
    {
        l.transitions += 1;
        let mut two = bytes.to_vec();
        two.extend_from_slice(&[0x81, 203, 0, 1, 0xAB, 0xCD, 0xEF, 0x01]);
        crate::placed!(l, two, 5);
        let r = guard::catch(|| -> Result<(), String> {
            let c = Compound::parse(&two).map_err(|e| format!("Compound::parse = {:?}", e))?;
            let items: Vec<_> = c.take(4).collect();
            match items.as_slice() {
                [Ok(Packet::Unknown(first)), Ok(Packet::Bye(_))] if first.data() == &bytes[..] => Ok(()),
                other => Err(format!("the datagram iterates as {} items: {:?}", other.len(), other.iter().map(|r| r.as_ref().map(|p| p.type_()).map_err(|e| format!("{:?}", e))).collect::<Vec<_>>())),
            }
        });
        match r {
            Err(pi) => {
                l.subject_panic("Compound", &pi, || hex_short(&two));
                return;
            }
            Ok(Err(m)) => {
                l.violation(format!("written-packet-followed-by-another:{}", t.builder()), || hex_short(&two), || m);
                return;
            }
            Ok(Ok(())) => {}
        }
    }
    // ... and as the last packet of a datagram, reached by position (nth / skip / last) as well as by walking
    {
        l.transitions += 4;
        let mut two = vec![0x81u8, 203, 0, 1, 0xAB, 0xCD, 0xEF, 0x01];
        two.extend_from_slice(&bytes);
        crate::placed!(l, two, 2);
        let r = guard::catch(|| -> Result<(), String> {
            let c = || Compound::parse(&two).map_err(|e| format!("Compound::parse = {:?}", e));
            let is_it = |x: Option<Result<Packet<'_>, RtcpParseError>>, how: &str| match x {
                Some(Ok(Packet::Unknown(u))) if u.data() == &bytes[..] => Ok(()),
                other => Err(format!("{} gives {:?}", how, other.map(|r| r.map(|p| p.type_()).map_err(|e| format!("{:?}", e))))),
            };
            is_it(c()?.nth(1), "nth(1)")?;
            is_it(c()?.skip(1).next(), "skip(1).next()")?;
            is_it(c()?.last(), "last()")?;
            let mut it = c()?;
            let _ = it.next();
            is_it(it.next(), "the second next()")?;
            if c()?.count() != 2 {
                return Err(format!("count() = {}", c()?.count()));
            }
            Ok(())
        });
        match r {
            Err(pi) => {
                l.subject_panic("Compound", &pi, || hex_short(&two));
                return;
            }
            Ok(Err(m)) => {
                l.violation(format!("written-packet-last-in-a-datagram:{}", t.builder()), || hex_short(&two), || m);
                return;
            }
            Ok(Ok(())) => {}
        }
    }
    // conversion back to every family member of this type number
    if EXT_PTS.contains(&pt) {
        let h = read::header(&bytes).unwrap();
        for &min in EXT_MINS.iter() {
            l.transitions += 2;
            l.validated += 1;
            let via_packet = guard::catch(|| ext::ext_from_packet(pt, min, &p));
            let via_unknown = guard::catch(|| ext::ext_from_unknown(pt, min, u));
            let (vp, vu) = match (via_packet, via_unknown) {
                (Ok(a), Ok(b)) => (a, b),
                (Err(pi), _) | (_, Err(pi)) => {
                    l.subject_panic("try_as::<Ext>", &pi, || hex_short(&bytes));
                    return;
                }
            };
            let padn = if h.p { *bytes.last().unwrap() as usize } else { 0 };
            let fits = bytes.len() >= min && padn <= bytes.len().saturating_sub(min);
            if !fits {
                if vp.is_ok() || vu.is_ok() {
                    l.violation("try_as-accepts-below-minimum", || format!("Ext<{},{}> {}", pt, min, hex_short(&bytes)), || format!("{:?}", vp));
                }
                continue;
            }
            for (how, v) in [("Packet::try_as", &vp), ("Unknown::try_as", &vu)] {
                match v {
                    Err(e) => l.violation(format!("try_as-rejects-own-packet:{}", how), || format!("Ext<{},{}> {}", pt, min, hex_short(&bytes)), || format!("{:?}", e)),
                    Ok(view) => {
                        let ok = view.version == 2 && view.pt == pt && view.count == h.count && view.length == bytes.len() && view.padding == if h.p { Some(padn as u8) } else { None } && view.raw == bytes;
                        if !ok {
                            l.violation(format!("try_as-fields-not-intact:{}", how), || format!("Ext<{},{}> {}", pt, min, hex_short(&bytes)), || format!("{:?}", view));
                        } else {
                            l.hit("converted back with every field intact");
                        }
                    }
                }
            }
        }
    }
    l.hit("written, parsed as unknown, exposed unchanged");
}

pub fn c19(ctx: &mut Ctx) {
    ctx.rule = "(1) helper contracts byte-exact in 0xA5 buffers: write_header_unchecked over 24 family members x all 256 paddings x counts 0..=31 x 17 buffer sizes; write_padding_unchecked over all 256 counts x slack 0..=8; check_padding over all 256; (2) check_packet::<Ext<PT,MIN>> for 6 type numbers x 4 minimum lengths against the three-valued framing classifier over the header space; (3) every Ext writer / UnknownBuilder configuration: image equals the reference image, Packet::parse yields Unknown exposing the same bytes (pointer identity), try_as back to every family member keeps count/padding/length/bytes; (4) members embedded at every position of 1-3 member compounds (C14's oracle); non-trivial = every helper call / well-framed string / written packet, distinct by fingerprint".into();
    ctx.bound("family", "PT in {0,192,199,207,242,255} x MIN in {4,8,12,16}");
    ctx.bound("unknown builder", ctx.tier.pick("8 type numbers x count 0..=31 x payload 0..=16 bytes x 64 paddings", "all 256 type numbers x count 0..=31 x payload 0..=16 bytes x 64 paddings"));
    ctx.assume("third-party types outside the Ext family are not explored");
    ctx.run_space("helper:write_header_unchecked", 24 * 256 * 32 * 17, |idx, l| helper_header_case(idx, l));
    ctx.run_space("helper:write_padding_unchecked+check_padding", 256 * 9, |idx, l| helper_padding_case(idx, l));
    let mut pts = EXT_PTS.to_vec();
    pts.extend_from_slice(&[1, 200]);
    let sp = bytes::header_space("check_packet:header-space", (0..=255u8).collect(), pts, 36, vec![0, 1, 3, 4, 8, 255], 2);
    let get = &sp.get;
    ctx.run_space(&sp.name, sp.len, |idx, l| {
        let mut buf = Vec::with_capacity(48);
        get(idx, &mut buf);
        check_packet_case(&buf, l);
    });
    let sp = ext_space();
    let get = &sp.get;
    ctx.run_space("written:ext-writers", sp.len, |idx, l| written_case(&get(idx), l));
    for sp in gens::unknown_spaces(ctx.tier, ctx.seed) {
        let get = &sp.get;
        ctx.run_space(&format!("written:{}", sp.name), sp.len, |idx, l| {
            written_case(&Target::Pkt(get(idx), Variant::PLAIN), l);
            // the same configuration reached by setting count and padding to other values first, with the
            // builder queried after every call
            written_case(&Target::Pkt(get(idx), Variant { probe: true, ..Variant::RESET }), l);
        });
    }
    // the unknown-packet builder on both sides of its rules: padding 0..=255 x count {0,30,31,32,33,255} x payload
    // lengths 0..=9 x 3 type numbers
    for sp in super::rules::rule_spaces(ctx.tier) {
        if sp.name != "rules-unknown" {
            continue;
        }
        let get = &sp.get;
        ctx.run_space(&format!("written:{}", sp.name), sp.len, |idx, l| written_case(&Target::Pkt(get(idx), Variant::PLAIN), l));
    }
    // embedded in compounds at every position
    let menu: Vec<Member> = vec![
        Member::Ext { pt: 242, min: 12, count: 3, ssrc: 0x0E0E_0E0E, words: vec![0xDEAD_BEEF], pad: 0 },
        Member::Ext { pt: 0, min: 4, count: 31, ssrc: 1, words: vec![], pad: 0 },
        Member::Ext { pt: 255, min: 16, count: 0, ssrc: 2, words: vec![1, 2, 3], pad: 8 },
        Member::Plain(Pkt::Unknown { pt: 207, count: 5, data: vec![1, 2, 3, 4, 5, 6, 7, 8], pad: 0 }),
        Member::Plain(Pkt::Unknown { pt: 192, count: 0, data: vec![], pad: 4 }),
        Member::Wrapped(Pkt::Unknown { pt: 199, count: 1, data: vec![9, 9, 9, 9], pad: 0 }),
        Member::Wrapped(Pkt::Unknown { pt: 208, count: 2, data: vec![7, 7, 7, 7], pad: 4 }),
        Member::Nested(vec![Member::Plain(Pkt::Unknown { pt: 209, count: 0, data: vec![], pad: 8 })]),
        Member::Plain(Pkt::Bye { ssrcs: vec![7], reason: "x".into(), pad: 0 }),
        Member::Plain(Pkt::Rr { ssrc: 8, blocks: vec![], pad: 0 }),
        // header-only (4 bytes)
        Member::Plain(Pkt::Unknown { pt: 210, count: 9, data: vec![], pad: 0 }),
    ];
    let k = menu.len() as u64;
    ctx.run_space("embedded-in-compounds", seq_count(k, 3), |idx, l| {
        let ms: Vec<Member> = seq_decode(k, idx).iter().map(|&i| menu[i as usize].clone()).collect();
        match guard::catch(|| c14_case(&ms, l)) {
            Ok(()) => {}
            Err(pi) => l.subject_panic("compound", &pi, || format!("{:?}", ms)),
        }
    });
    // ... and in compounds of every member count up to a bound (see gens::dense_bound), the third-party and unknown
    // members cycling; the list ends unpadded / padded
    {
        let max = ctx.tier.pick(1200u64, 4096);
        ctx.bound("every member count", format!("compounds of every count 1..={} of third-party / unknown members (C14's oracle: size, bytes, parse-back to one packet per member)", max));
        let pool: Vec<Member> = vec![menu[0].clone(), menu[1].clone(), menu[3].clone(), menu[5].clone(), menu[10].clone()];
        let last_padded = menu[2].clone();
        ctx.run_space("embedded-in-compounds-of-every-size", max * 2, |idx, l| {
            let n = (idx / 2) as usize + 1;
            let mut ms: Vec<Member> = (0..n).map(|i| pool[(i * 3 + i / 16 + n) % pool.len()].clone()).collect();
            if idx % 2 == 1 {
                ms.pop();
                ms.push(last_padded.clone());
            }
            match guard::catch(|| c14_case(&ms, l)) {
                Ok(()) => {}
                Err(pi) => l.subject_panic("compound", &pi, || format!("{} members", ms.len())),
            }
        });
    }
    // ... and in compounds of mid-size third-party / unknown members whose total passes 65535 and 262144 bytes (a
    // member that starts beyond 64 KiB / 256 KiB)
    {
        ctx.bound("large compounds", "compounds of k unknown / third-party members of 1400 and 4000 bytes for k just below and above the totals 65536 and 262144 bytes");
        let shapes: Vec<(usize, usize)> = vec![(1400, 46), (1400, 47), (1400, 48), (1400, 187), (1400, 188), (1400, 190), (4000, 16), (4000, 17), (4000, 65), (4000, 66), (4000, 68)];
        let ns = shapes.len() as u64;
        ctx.run_space("embedded-in-large-compounds", ns, |idx, l| {
            let (sz, n) = shapes[idx as usize];
            let ms: Vec<Member> = (0..n)
                .map(|i| {
                    if i % 2 == 0 {
                        Member::Plain(Pkt::Unknown { pt: 207, count: (i % 32) as u8, data: (0..sz - 4).map(|j| ((j * 3 + i) % 251) as u8 | 1).collect(), pad: 0 })
                    } else {
                        Member::Ext { pt: 242, min: 12, count: 3, ssrc: 0x0E0E_0000 + i as u32, words: (0..(sz - 8) / 4).map(|j| (j as u32).wrapping_mul(0x0101_0101) | 1).collect(), pad: 0 }
                    }
                })
                .collect();
            match guard::catch(|| c14_case(&ms, l)) {
                Ok(()) => {}
                Err(pi) => l.subject_panic("compound", &pi, || format!("{} members of {} bytes", ms.len(), sz)),
            }
        });
    }
    ctx.require_hit("header helper ok");
    ctx.require_hit("header field readers ok");
    ctx.require_hit("padding helper ok");
    ctx.require_hit("check_packet: well-framed accepted");
    ctx.require_hit("check_packet: ill-framed rejected");
    ctx.require_hit("converted back with every field intact");
    ctx.require_hit("written, parsed as unknown, exposed unchanged");
    ctx.require_hit("parsed back to its members");
    let _ = wire::encode_ext;
}
