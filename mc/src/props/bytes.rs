//! Index-addressed spaces of byte strings for the parse-side properties.

use super::gens;
use crate::engine::space::*;
use crate::refmodel::wire;

pub type Gen = Box<dyn Fn(u64, &mut Vec<u8>) + Sync + Send>;

pub struct ByteSpace {
    pub name: String,
    pub len: u64,
    pub get: Gen,
    /// Predecessor strings of a case (see `with_pred`).
    pub preds: Vec<Gen>,
}

impl ByteSpace {
    pub fn new(name: &str, len: u64, get: impl Fn(u64, &mut Vec<u8>) + Sync + Send + 'static) -> ByteSpace {
        ByteSpace { name: name.to_string(), len, get: Box::new(get), preds: Vec::new() }
    }

    /// A receive buffer reused in place: before the string of case `i` is judged, the string `pred(i)` - a neighbour
    /// of it in the space, typically the same header and length with another body or last byte, one of the two
    /// well-formed and the other not - stands in the very same buffer (same address, same length when the neighbour
    /// has it) and is handed to every parsing entry point. A two-step history per predecessor: what the parsers say
    /// about a string must not depend on what stood at that address before.
    pub fn with_pred(mut self, pred: impl Fn(u64, &mut Vec<u8>) + Sync + Send + 'static) -> ByteSpace {
        self.preds.push(Box::new(pred));
        self
    }

    /// Runs `case` on every string of the space under the name `name`. The string is handed over at a chosen address
    /// residue modulo 8 (`engine::place`): a space of at most `cross_limit` strings is crossed with all eight
    /// residues (8 x len cases), a larger one rotates the residue with the case index.
    pub fn run(&self, ctx: &mut crate::engine::run::Ctx, name: &str, cross_limit: u64, case: impl Fn(&[u8], &mut crate::engine::run::Local) + Sync) {
        use crate::engine::place;
        let cross = self.len <= cross_limit;
        let get = &self.get;
        let preds = &self.preds;
        ctx.run_space(name, if cross { self.len * place::RESIDUES } else { self.len }, |idx, l| {
            let (i, r) = place::split(idx, cross);
            let mut buf = Vec::with_capacity(80);
            get(i, &mut buf);
            if preds.is_empty() {
                let s = place::place(&mut buf, r);
                case(s, l);
                return;
            }
            // one arena for the predecessors and the string itself, so that they stand at the same address
            let mut arena: Vec<u8> = Vec::with_capacity(buf.len() + 64);
            let mut pb = Vec::with_capacity(buf.len() + 8);
            // small spaces: the full oracle after every predecessor; larger ones: after one of them, rotating
            for (k, p) in preds.iter().enumerate() {
                if !cross && k as u64 != (i / 7 + i) % preds.len() as u64 {
                    continue;
                }
                p(i, &mut pb);
                if pb.len() + 32 > arena.capacity() {
                    // would move the arena: not a reuse of the same buffer; judge the string on its own
                    pb.clear();
                }
                arena.clear();
                arena.extend_from_slice(&pb);
                let before = arena.as_ptr();
                let ps = place::place(&mut arena, r);
                super::common::touch_all_parsers(ps);
                if arena.as_ptr() != before {
                    crate::engine::run::machinery_failure("ByteSpace::run: the arena moved between a predecessor and its successor");
                }
                arena.clear();
                arena.extend_from_slice(&buf);
                let s = place::place(&mut arena, r);
                l.transitions += 1;
                case(s, l);
            }
        });
    }
}

/// The largest space that is crossed with all eight address residues (see `ByteSpace::run`).
pub fn cross_limit(ctx: &crate::engine::run::Ctx) -> u64 {
    ctx.tier.pick(300_000, 3_000_000)
}

pub fn placement_bound(ctx: &mut crate::engine::run::Ctx) {
    let lim = cross_limit(ctx);
    ctx.bound("address placement", format!("every input string is handed to the parsers at a chosen address residue modulo 8 (zero-copy views: the address is part of the input): spaces of at most {} strings are crossed with all 8 residues, larger ones (and the giants) rotate the residue with the case index", lim));
}

pub const HEADER_PTS: [u8; 13] = [0, 192, 199, 200, 201, 202, 203, 204, 205, 206, 207, 242, 255];

fn fill_byte(f: u64, i: usize) -> u8 {
    match f {
        0 => 0x00,
        1 => 0xFF,
        _ => (i as u8).wrapping_mul(37).wrapping_add(1),
    }
}

/// S1: byte0 x packet type x length-field variant x actual length x last byte x body fill.
pub fn header_space(name: &str, byte0s: Vec<u8>, pts: Vec<u8>, max_len: usize, last_bytes: Vec<u8>, fills: u64) -> ByteSpace {
    // length-field variants relative to the exact value for the actual length
    const LV: u64 = 7;
    let r = Radix::new(&[byte0s.len() as u64, pts.len() as u64, LV, max_len as u64 + 1, last_bytes.len() as u64, fills]);
    let rl = r.len();
    let nl = last_bytes.len() as u64;
    // `tweak` = (coordinate, amount): the neighbour of the case in that coordinate
    let gen = move |idx: u64, out: &mut Vec<u8>, tweak: Option<(usize, u64)>| {
        let mut c = [0u64; 6];
        r.decode(idx, &mut c);
        if let Some((k, d)) = tweak {
            let dim = [0, 0, 0, 0, nl, fills][k];
            c[k] = (c[k] + d) % dim;
        }
        let n = c[3] as usize;
        out.clear();
        for i in 0..n {
            out.push(fill_byte(c[5], i));
        }
        if n >= 1 {
            out[0] = byte0s[c[0] as usize];
        }
        if n >= 2 {
            out[1] = pts[c[1] as usize];
        }
        if n >= 4 {
            let exact = (n / 4) as i64 - 1;
            let field: i64 = match c[2] {
                0 => exact,
                1 => exact - 1,
                2 => exact + 1,
                3 => exact - 2,
                4 => exact + 2,
                5 => 0,
                _ => 0xFFFF,
            };
            let field = field.rem_euclid(0x10000) as u16;
            out[2] = (field >> 8) as u8;
            out[3] = field as u8;
        }
        if n > 4 {
            out[n - 1] = last_bytes[c[4] as usize];
        }
    };
    let gen = std::sync::Arc::new(gen);
    let (g0, g1, g2, g3) = (gen.clone(), gen.clone(), gen.clone(), gen);
    // predecessors in the same buffer: the same header and length with the next / the previous last byte (a padding
    // count that fits next to one that does not) and with another body fill
    ByteSpace::new(name, rl, move |idx, out| g0(idx, out, None))
        .with_pred(move |idx, out| g1(idx, out, Some((4, 1))))
        .with_pred(move |idx, out| g2(idx, out, Some((4, nl - 1))))
        .with_pred(move |idx, out| g3(idx, out, Some((5, 1))))
}

pub fn s1_full() -> ByteSpace {
    header_space("S1-header-space", (0..=255u8).collect(), HEADER_PTS.to_vec(), 56, vec![0, 1, 3, 4, 8, 255], 3)
}

/// Longer exactly-framed packets with every value of the last byte (the padding count when P is set): the lengths
/// where "length minus the fixed part" passes 255, so that a padding check done in 8 bits wraps.
pub const LONG_LENS: [usize; 18] = [60, 64, 128, 248, 252, 256, 260, 264, 268, 272, 276, 280, 284, 288, 300, 512, 516, 1028];
pub fn s1_long_padded() -> ByteSpace {
    let byte0s = [0xA0u8, 0xA1, 0xA2, 0xA4, 0xBF, 0x80];
    let pts = HEADER_PTS.to_vec();
    let r = Radix::new(&[byte0s.len() as u64, pts.len() as u64, LONG_LENS.len() as u64, 256, 3]);
    let rl = r.len();
    let gen = move |idx: u64, out: &mut Vec<u8>, delta: u8| {
        let mut c = [0u64; 5];
        r.decode(idx, &mut c);
        let n = LONG_LENS[c[2] as usize];
        out.clear();
        for i in 0..n {
            out.push(fill_byte(c[4], i));
        }
        out[0] = byte0s[c[0] as usize];
        out[1] = pts[c[1] as usize];
        let words = (n / 4 - 1) as u16;
        out[2] = (words >> 8) as u8;
        out[3] = words as u8;
        out[n - 1] = (c[3] as u8).wrapping_add(delta);
    };
    let gen = std::sync::Arc::new(gen);
    let (g0, g1, g2) = (gen.clone(), gen.clone(), gen);
    // predecessors in the same buffer: the same packet with the padding count one word larger / one less
    ByteSpace::new("S1-long-packets-every-last-byte", rl, move |idx, out| g0(idx, out, 0)).with_pred(move |idx, out| g1(idx, out, 4)).with_pred(move |idx, out| g2(idx, out, 255))
}

/// all 256 packet types with a reduced first byte / last byte alphabet
pub fn s1_all_types() -> ByteSpace {
    header_space(
        "S1-all-packet-types",
        vec![0x80, 0x81, 0x82, 0x9F, 0xA0, 0xA1, 0xBF, 0x00, 0x40, 0xC0, 0xE0],
        (0..=255u8).collect(),
        36,
        vec![0, 4, 255],
        2,
    )
}

/// Encoded images of the base set W.
pub fn base_images() -> Vec<Vec<u8>> {
    gens::base_set().iter().map(wire::encode).collect()
}

/// k = 1: every single-byte substitution of every base string over all 256 values.
pub fn dev1_space(bases: Vec<Vec<u8>>) -> ByteSpace {
    let mut offs = Vec::with_capacity(bases.len() + 1);
    let mut total = 0u64;
    for b in &bases {
        offs.push(total);
        total += b.len() as u64 * 256;
    }
    offs.push(total);
    let bases = std::sync::Arc::new(bases);
    let offs = std::sync::Arc::new(offs);
    let (b0, o0, b1, o1, b2, o2) = (bases.clone(), offs.clone(), bases.clone(), offs.clone(), bases, offs);
    ByteSpace::new("S2-one-byte-substitutions", total, move |idx, out| {
        let bi = o0.partition_point(|&o| o <= idx) - 1;
        let r = idx - o0[bi];
        let b = &b0[bi];
        out.clear();
        out.extend_from_slice(b);
        out[(r / 256) as usize] = (r % 256) as u8;
    })
    // predecessors in the same buffer: the unmodified base packet (well-formed, then corrupted in place) ...
    .with_pred(move |idx, out| {
        let bi = o1.partition_point(|&o| o <= idx) - 1;
        out.clear();
        out.extend_from_slice(&b1[bi]);
    })
    // ... and the same position holding the next value (so the base itself is preceded by a corrupted version)
    .with_pred(move |idx, out| {
        let bi = o2.partition_point(|&o| o <= idx) - 1;
        let r = idx - o2[bi];
        out.clear();
        out.extend_from_slice(&b2[bi]);
        out[(r / 256) as usize] = ((r % 256) as u8).wrapping_add(1);
    })
}

/// k = 2: every pair of byte substitutions over `alphabet` for bases of at most `max_base` bytes.
pub fn dev2_space(bases: Vec<Vec<u8>>, alphabet: Vec<u8>, max_base: usize) -> ByteSpace {
    let bases: Vec<Vec<u8>> = bases.into_iter().filter(|b| b.len() <= max_base && b.len() >= 2).collect();
    let a = alphabet.len() as u64;
    let mut offs = Vec::with_capacity(bases.len() + 1);
    let mut total = 0u64;
    for b in &bases {
        offs.push(total);
        let n = b.len() as u64;
        total += n * (n - 1) / 2 * a * a;
    }
    offs.push(total);
    ByteSpace::new(&format!("S2-two-byte-substitutions-{}sym", a), total, move |idx, out| {
        let bi = offs.partition_point(|&o| o <= idx) - 1;
        let mut r = idx - offs[bi];
        let b = &bases[bi];
        let v2 = alphabet[(r % a) as usize];
        r /= a;
        let v1 = alphabet[(r % a) as usize];
        r /= a;
        // r indexes the pair (i < j)
        let n = b.len() as u64;
        let mut i = 0u64;
        let mut rem = r;
        while rem >= n - 1 - i {
            rem -= n - 1 - i;
            i += 1;
        }
        let j = i + 1 + rem;
        out.clear();
        out.extend_from_slice(b);
        out[i as usize] = v1;
        out[j as usize] = v2;
    })
}

/// S5: every truncation and every +1..+8 byte extension of every base string, each with the
/// length field left alone and (when the new size is a multiple of 4) re-synchronised.
pub fn trunc_ext_space(bases: Vec<Vec<u8>>) -> ByteSpace {
    let mut offs = Vec::with_capacity(bases.len() + 1);
    let mut total = 0u64;
    for b in &bases {
        offs.push(total);
        total += (b.len() as u64 + 9) * 2 * 2;
    }
    offs.push(total);
    ByteSpace::new("S5-truncations-and-extensions", total, move |idx, out| {
        let bi = offs.partition_point(|&o| o <= idx) - 1;
        let r = idx - offs[bi];
        let b = &bases[bi];
        let resync = r % 2 == 1;
        let ext_fill = if (r / 2) % 2 == 1 { 0xFFu8 } else { 0x00 };
        let new_len = (r / 4) as usize; // 0..=len+8
        out.clear();
        if new_len <= b.len() {
            out.extend_from_slice(&b[..new_len]);
        } else {
            out.extend_from_slice(b);
            for k in 0..new_len - b.len() {
                // last extension byte counts the extension, so a set P bit sees a plausible count
                out.push(if k + 1 == new_len - b.len() && ext_fill == 0 { (new_len - b.len()) as u8 } else { ext_fill });
            }
        }
        if resync && new_len >= 4 && new_len % 4 == 0 {
            let f = (new_len / 4 - 1) as u16;
            out[2] = (f >> 8) as u8;
            out[3] = f as u8;
        }
    })
}

/// Well-formed SDES packets whose text is cut in the middle of a multi-byte character: every split of a few UTF-8
/// strings into (PRIV prefix, PRIV value), and into (value of one item, value of the next item) - so that a byte
/// string that is valid UTF-8 as a whole is not valid piece by piece, and the other way round.
pub fn sdes_utf8_split_space() -> ByteSpace {
    let texts: Vec<Vec<u8>> = vec!["\u{e9}".as_bytes().to_vec(), "a\u{e9}b".as_bytes().to_vec(), "\u{20ac}".as_bytes().to_vec(), "x\u{1F600}y".as_bytes().to_vec(), vec![0xC3, 0xA9, 0xC3], vec![0xA9, 0x41], vec![0xFF, 0xFE]];
    let mut cases: Vec<Vec<u8>> = Vec::new();
    for t in &texts {
        for cut in 0..=t.len() {
            for shape in 0..2 {
                let (a, b) = t.split_at(cut);
                let mut body = vec![0x01u8, 0x02, 0x03, 0x04];
                if shape == 0 {
                    // PRIV: length, prefix length, prefix, value
                    body.extend_from_slice(&[8, (1 + t.len()) as u8, a.len() as u8]);
                    body.extend_from_slice(a);
                    body.extend_from_slice(b);
                } else {
                    body.extend_from_slice(&[1, a.len() as u8]);
                    body.extend_from_slice(a);
                    body.extend_from_slice(&[7, b.len() as u8]);
                    body.extend_from_slice(b);
                }
                body.push(0);
                while body.len() % 4 != 0 {
                    body.push(0);
                }
                let words = body.len() / 4;
                let mut pkt = vec![0x81u8, 202, (words >> 8) as u8, words as u8];
                pkt.extend_from_slice(&body);
                cases.push(pkt);
            }
        }
    }
    let n = cases.len() as u64;
    ByteSpace::new("sdes-text-cut-inside-a-character", n, move |idx, out| {
        out.clear();
        out.extend_from_slice(&cases[idx as usize]);
    })
}

/// S3: all SDES-framed packets whose body is `words` 32-bit words over `alphabet`, P in {0,1}
/// and count field in `counts`.
pub fn sdes_bodies_space(words: usize, alphabet: Vec<u8>, counts: Vec<u8>) -> ByteSpace {
    let a = alphabet.len() as u64;
    let body = words * 4;
    let nbodies = a.pow(body as u32);
    let nc = counts.len() as u64;
    ByteSpace::new(&format!("S3-sdes-bodies-{}w-{}sym", words, a), nbodies * 2 * nc, move |idx, out| {
        let p = idx % 2 == 1;
        let cnt = counts[((idx / 2) % nc) as usize];
        let mut r = idx / 2 / nc;
        out.clear();
        out.push(0x80 | if p { 0x20 } else { 0 } | cnt);
        out.push(202);
        out.push(0);
        out.push(words as u8);
        for _ in 0..body {
            out.push(alphabet[(r % a) as usize]);
            r /= a;
        }
    })
}

/// S6: giant inputs.
pub fn giants_space() -> ByteSpace {
    ByteSpace::new("S6-giants", 8 * 4 + 4 + 45, move |idx, out| {
        out.clear();
        if idx >= 36 {
            // giant feedback packets under each FCI type's own (kind, format) gate, so that the FCI parsers and
            // their iterators run over 16 384 words and more (where a 16-bit word index or byte offset wraps)
            let k = idx - 36;
            let (pt, fmt) = [(205u8, 1u8), (206, 1), (206, 2), (206, 3), (206, 4)][(k % 5) as usize];
            let total = [65_548usize, 131_072, 262_144][((k / 5) % 3) as usize];
            let fill = k / 15;
            out.resize(total, 0);
            for (i, b) in out.iter_mut().enumerate().skip(12) {
                *b = match fill {
                    0 => 0x00,
                    1 => 0xFF,
                    _ => ((i as u32).wrapping_mul(0x9E37_79B1) >> 13) as u8,
                };
            }
            out[0] = 0x80 | fmt;
            out[1] = pt;
            let words = (total / 4 - 1) as u16;
            out[2] = (words >> 8) as u8;
            out[3] = words as u8;
            out[4..12].copy_from_slice(&[1, 2, 3, 4, 5, 6, 7, 8]);
            if fmt == 3 && pt == 206 {
                // RPSI: a PB that fits
                out[12] = [0u8, 8, 7][fill as usize];
            }
        } else if idx < 32 {
            // 0xFFFF-length packets of each type, all-zero / all-FF / count-maximal bodies
            let pt = [200u8, 201, 202, 203, 204, 205, 206, 207][(idx % 8) as usize];
            let variant = idx / 8;
            let fill = match variant {
                0 => 0x00u8,
                1 => 0xFF,
                2 => 0x01,
                _ => 0x08,
            };
            out.resize(262144, fill);
            out[0] = if variant == 1 { 0xBF } else { 0x9F };
            out[1] = pt;
            out[2] = 0xFF;
            out[3] = 0xFF;
            if variant == 1 {
                *out.last_mut().unwrap() = 4;
                let n = out.len();
                out[n - 4..n - 1].fill(0);
            }
        } else {
            match idx - 32 {
                0 => {
                    // 65536 four-byte BYEs as one compound
                    for _ in 0..65536 {
                        out.extend_from_slice(&[0x80, 203, 0, 0]);
                    }
                }
                1 => {
                    // two maximal packets back to back
                    for _ in 0..2 {
                        let st = out.len();
                        out.resize(st + 262144, 0);
                        out[st] = 0x80;
                        out[st + 1] = 204;
                        out[st + 2] = 0xFF;
                        out[st + 3] = 0xFF;
                    }
                }
                2 => {
                    // one byte more than a maximal packet
                    out.resize(262145, 0);
                    out[0] = 0x80;
                    out[1] = 201;
                    out[2] = 0xFF;
                    out[3] = 0xFF;
                }
                _ => {
                    // a maximal SDES packet made of minimal chunks
                    out.resize(262144, 0);
                    out[0] = 0x9F;
                    out[1] = 202;
                    out[2] = 0xFF;
                    out[3] = 0xFF;
                    let n = out.len();
                    for i in (4..n).step_by(8) {
                        out[i] = 0x11;
                        if i + 4 < n {
                            out[i + 4] = 0x01;
                            out[i + 5] = 0x01;
                            out[i + 6] = 0x41;
                        }
                    }
                }
            }
        }
    })
}

/// S6b: giants whose size is in a *count* rather than in one length field: very long runs of one header-only
/// packet (a per-packet recursion or a 16-bit packet counter shows here) and SDES packets with a single chunk of
/// more than 65 535 bytes of items (a 16-bit sum of item lengths shows here).
pub const RUN_PTS: [u8; 10] = [200, 201, 202, 203, 204, 205, 206, 207, 192, 0];
pub const RUN_COUNTS: [usize; 3] = [65_536, 65_537, 200_000];
pub fn giants_runs_space() -> ByteSpace {
    let runs = (RUN_PTS.len() * RUN_COUNTS.len()) as u64;
    ByteSpace::new("S6b-giant-runs-and-chunks", runs + 6, move |idx, out| {
        out.clear();
        if idx < runs {
            let pt = RUN_PTS[(idx % RUN_PTS.len() as u64) as usize];
            let n = RUN_COUNTS[(idx / RUN_PTS.len() as u64) as usize];
            out.reserve(n * 4);
            for _ in 0..n {
                out.extend_from_slice(&[0x80, pt, 0, 0]);
            }
        } else {
            // one SDES chunk holding `items` items of `vlen` value bytes each (type CNAME/PRIV/NOTE), NUL, padding
            let k = idx - runs;
            let (items, vlen, ty) = [(258usize, 253usize, 1u8), (300, 255, 1), (1000, 255, 7), (300, 255, 8), (22_000, 1, 2), (33_000, 0, 3)][k as usize];
            out.extend_from_slice(&[0x81, 202, 0, 0, 0x11, 0x22, 0x33, 0x44]);
            for i in 0..items {
                out.push(ty);
                out.push(vlen as u8);
                for j in 0..vlen {
                    // PRIV: a prefix length that fits, then letters
                    out.push(if ty == 8 && j == 0 { 3 } else { b'a' + ((i + j) % 26) as u8 });
                }
            }
            out.push(0);
            while out.len() % 4 != 0 {
                out.push(0);
            }
            let words = out.len() / 4 - 1;
            debug_assert!(words <= 0xFFFF);
            out[2] = (words >> 8) as u8;
            out[3] = words as u8;
        }
    })
}

/// S4: direct FCI parser inputs: every length 0..=40 x first byte (all) x second byte x fill.
pub fn fci_raw_space() -> ByteSpace {
    let second = [0x00u8, 0x7F, 0x80, 0xFF];
    let r = Radix::new(&[41, 256, 4, 3]);
    let rl = r.len();
    ByteSpace::new("S4-raw-fci-bodies", rl, move |idx, out| {
        let mut c = [0u64; 4];
        r.decode(idx, &mut c);
        let n = c[0] as usize;
        out.clear();
        for i in 0..n {
            out.push(fill_byte(c[3], i));
        }
        if n >= 1 {
            out[0] = c[1] as u8;
        }
        if n >= 2 {
            out[1] = second[c[2] as usize];
        }
    })
}

/// The 15-kind tile menu of C11(a).
pub fn tile_menu() -> Vec<Vec<u8>> {
    vec![
        vec![0x80, 203, 0, 0],                                                 // BYE ok
        vec![0x80, 201, 0, 1, 1, 2, 3, 4],                                     // RR ok
        vec![0x85, 204, 0, 2, 1, 2, 3, 4, b'n', b'a', b'm', b'e'],             // APP ok
        vec![0x80, 207, 0, 1, 9, 9, 9, 9],                                     // unknown type ok
        vec![0x81, 201, 0, 1, 1, 2, 3, 4],                                     // RR with count 1 and no block: typed parse fails
        vec![0x00, 203, 0, 0],                                                 // version 0
        vec![0x81, 202, 0, 2, 1, 2, 3, 4, 0x00, 0x07, 0x00, 0x00],             // SDES with a non-zero byte in the fill
        vec![0xA0, 203, 0, 1, 0, 0, 0, 0],                                     // BYE with P and zero count
        vec![0xA0, 201, 0, 2, 1, 2, 3, 4, 0, 0, 0, 4],                         // RR ok, 4 bytes of padding (legal at any position on the wire)
        vec![0x40, 207, 0, 0],                                                 // unknown type, version 1
        vec![0x80, 200, 0, 0],                                                 // SR of one word: shorter than an SR's minimum
        vec![0x81, 205, 0, 1, 1, 2, 3, 4],                                     // transport feedback of two words: shorter than its minimum
        vec![0x81, 202, 0, 2, 1, 2, 3, 4, 0x08, 0x02, 0x05, 0x41],             // SDES whose PRIV prefix is longer than its item (an item-level error)
        vec![0x81, 202, 0, 2, 1, 2, 3, 4, 0x01, 0x09, 0x41, 0x42],             // SDES whose item overruns the packet
        vec![0x81, 202, 0, 2, 1, 2, 3, 4, 0x08, 0x00, 0x00, 0x00],             // SDES with a PRIV item of length 0
    ]
}

/// All concatenations of 1..=`depth` tiles of the menu (well-tiled datagrams whose tiles parse or fail in every
/// position): the compound-shaped inputs of C08 / C12 / C18.
pub fn tile_seq_space(depth: u32) -> ByteSpace {
    let menu = tile_menu();
    let k = menu.len() as u64;
    ByteSpace::new(&format!("tile-sequences-depth-{}", depth), seq_count(k, depth) - 1, move |idx, out| {
        out.clear();
        for t in seq_decode(k, idx + 1) {
            out.extend_from_slice(&menu[t as usize]);
        }
    })
}

/// Long datagrams: `n` well-formed tiles of varying sizes (4, 8, 12, 12-with-padding, 8 bytes, cycling with a stride
/// that depends on `n`), for n around the sizes an implementation might pick for a cache or an up-front check
/// (8, 16, 32, 64, 256 ...), ending in each of 12 tail variants: exact, the last tile's length field one word too large
/// or too small, 1..3 stray bytes, a header claiming more than is left, a tile that fails to parse (typed parser /
/// version / below its minimum), a 4-byte tile, a padded tile.
pub const CHAIN_COUNTS: [usize; 20] = [7, 8, 9, 15, 16, 17, 18, 31, 32, 33, 34, 63, 65, 130, 255, 256, 257, 300, 513, 1025];
pub const CHAIN_TAILS: u64 = 12;
pub fn long_chain_space() -> ByteSpace {
    let menu = tile_menu();
    let good: Vec<Vec<u8>> = vec![menu[0].clone(), menu[1].clone(), menu[2].clone(), menu[8].clone(), menu[3].clone()];
    ByteSpace::new("long-tile-chains", CHAIN_COUNTS.len() as u64 * CHAIN_TAILS * 2, move |idx, out| {
        out.clear();
        let n = CHAIN_COUNTS[(idx % CHAIN_COUNTS.len() as u64) as usize];
        let tail = (idx / CHAIN_COUNTS.len() as u64) % CHAIN_TAILS;
        let stride = if idx / (CHAIN_COUNTS.len() as u64 * CHAIN_TAILS) == 0 { 1 } else { 3 };
        let mut last = 0usize;
        for i in 0..n {
            last = out.len();
            out.extend_from_slice(&good[(i * stride + i / 16) % good.len()]);
        }
        match tail {
            0 => {}
            1 | 2 => {
                let f = crate::refmodel::read::rd16(out, last + 2);
                let f = if tail == 1 { f.wrapping_add(1) } else { f.wrapping_sub(1) };
                out[last + 2] = (f >> 8) as u8;
                out[last + 3] = f as u8;
            }
            3 | 4 | 5 => {
                for k in 0..(tail - 2) {
                    out.push(0x80 | k as u8);
                }
            }
            6 => out.extend_from_slice(&[0x80, 203, 0, 9, 1, 2, 3, 4]),
            7 => out.extend_from_slice(&menu[4]),
            8 => out.extend_from_slice(&menu[5]),
            9 => out.extend_from_slice(&menu[10]),
            10 => out.extend_from_slice(&menu[0]),
            _ => out.extend_from_slice(&menu[8]),
        }
    })
}

/// Datagrams of every tile count 1..=`max_n` (see `gens::dense_bound`): well-formed tiles of mixed sizes, ending
/// exactly / with the last length field one word too large / with one stray byte / with a header that claims more than
/// is left. An up-front walk, a tile cache or a "reasonable maximum" of any size in between shows at its own number.
pub fn dense_chain_space(max_n: usize) -> ByteSpace {
    let menu = tile_menu();
    let good: Vec<Vec<u8>> = vec![menu[0].clone(), menu[1].clone(), menu[2].clone(), menu[8].clone(), menu[3].clone()];
    ByteSpace::new("tile-chains-of-every-length", max_n as u64 * 4, move |idx, out| {
        out.clear();
        let n = (idx / 4) as usize + 1;
        let tail = idx % 4;
        let mut last = 0usize;
        for i in 0..n {
            last = out.len();
            // a padded tile may only be judged differently when it is not last; keep the last tile unpadded for
            // the exact tail so that the well-formed reading is beyond doubt
            let mut k = (i * 3 + i / 16 + n) % good.len();
            if i + 1 == n && k == 3 {
                k = 1;
            }
            out.extend_from_slice(&good[k]);
        }
        match tail {
            0 => {}
            1 => {
                let f = crate::refmodel::read::rd16(out, last + 2).wrapping_add(1);
                out[last + 2] = (f >> 8) as u8;
                out[last + 3] = f as u8;
            }
            2 => out.push(0x80),
            _ => out.extend_from_slice(&[0x80, 203, 0, 9, 1, 2, 3, 4]),
        }
    })
}

/// Exactly framed packets of every length 4, 8 ... 4 * `max_words` bytes for each packet type the crate knows and two
/// it does not: without padding, with a legal padding count, with a zero count and with the largest count a byte holds
/// (sizes between the small header space and the giants: MTU-like sizes, inline buffer sizes).
pub fn dense_size_space(max_words: usize) -> ByteSpace {
    const PTS: [u8; 9] = [200, 201, 202, 203, 204, 205, 206, 199, 255];
    ByteSpace::new("exactly-framed-packets-of-every-size", max_words as u64 * PTS.len() as u64 * 4, move |idx, out| {
        out.clear();
        let words = (idx / (PTS.len() as u64 * 4)) as usize + 1;
        let pt = PTS[((idx / 4) % PTS.len() as u64) as usize];
        let variant = idx % 4;
        let len = words * 4;
        let count = match pt {
            200 | 201 | 203 => (words % 3) as u8, // some announce more blocks / sources than there is room for
            205 => 1,
            206 => [1u8, 2, 3, 4][words % 4],
            _ => (words % 32) as u8,
        };
        out.push(0x80 | if variant > 0 { 0x20 } else { 0 } | count);
        out.push(pt);
        out.push(((words - 1) >> 8) as u8);
        out.push((words - 1) as u8);
        for i in 4..len {
            out.push(((i * 7 + words) % 251) as u8 | 1);
        }
        if variant > 0 && len > 4 {
            out[len - 1] = match variant {
                1 => 4,
                2 => 0,
                _ => 255,
            };
        }
    })
}

/// Datagrams of every total size 24, 28 ... 4 * `max_words` bytes made of three unremarkable tiles (an unknown-type
/// packet that takes up the slack, a BYE, an APP - in an order that rotates with the size): a total that crosses or
/// hits a particular value while no single count or length is special. Exactly tiled, and with one stray byte.
pub fn dense_total_space(max_words: usize) -> ByteSpace {
    ByteSpace::new("datagrams-of-every-total-size", (max_words as u64 - 5) * 2, move |idx, out| {
        out.clear();
        let w = (idx / 2) as usize + 6;
        let slack = w - 5;
        let mut tiles: Vec<Vec<u8>> = Vec::new();
        let mut u = vec![0x80 | (w % 32) as u8, 208, ((slack - 1) >> 8) as u8, (slack - 1) as u8];
        u.extend((4..slack * 4).map(|i| ((i * 5 + w) % 253) as u8 | 1));
        tiles.push(u);
        tiles.push(vec![0x81, 203, 0, 1, 0xB1, 0xB2, 0xB3, (w % 251) as u8]);
        tiles.push(vec![0x83, 204, 0, 2, 1, 2, 3, 4, b't', b'o', b't', b'l']);
        tiles.rotate_left(w % 3);
        for t in &tiles {
            out.extend_from_slice(t);
        }
        if idx % 2 == 1 {
            out.push(0x80);
        }
    })
}

/// Datagrams of mid-size tiles (1100, 1400, 4000 and 24000 bytes) whose total crosses 65 507 (the largest UDP
/// payload), 65 535 / 65 536 and 262 144 bytes (the largest single packet): the offset at which a tile starts passes
/// values that no run of small tiles and no single large packet reaches. For each tile size the counts just below and
/// above each crossing, ending exactly / with a last tile whose length field claims one word more than is left / with a
/// stray byte / with a small tile whose header claims more than is left.
pub fn big_chain_space() -> ByteSpace {
    const SIZES: [usize; 4] = [1100, 1400, 4000, 24000];
    const MARKS: [usize; 3] = [65_507, 65_536, 262_144];
    // (tile size, count)
    let mut shapes: Vec<(usize, usize)> = Vec::new();
    for &sz in &SIZES {
        for &m in &MARKS {
            let k = m / sz;
            for n in [k.saturating_sub(1).max(1), k, k + 1, k + 2] {
                if !shapes.contains(&(sz, n)) {
                    shapes.push((sz, n));
                }
            }
        }
    }
    let ns = shapes.len() as u64;
    ByteSpace::new("datagrams-of-mid-size-tiles-across-64K-and-256K", ns * 4, move |idx, out| {
        out.clear();
        let (sz, n) = shapes[(idx % ns) as usize];
        let tail = idx / ns;
        let words = sz / 4;
        let mut last = 0usize;
        for i in 0..n {
            last = out.len();
            // APP and unknown-type tiles alternate
            let pt = if i % 2 == 0 { 204u8 } else { 209 };
            out.extend_from_slice(&[0x80 | (i % 32) as u8, pt, ((words - 1) >> 8) as u8, (words - 1) as u8]);
            out.extend((4..sz).map(|j| ((j * 3 + i) % 251) as u8 | 1));
        }
        match tail {
            0 => {}
            1 => {
                let f = crate::refmodel::read::rd16(out, last + 2).wrapping_add(1);
                out[last + 2] = (f >> 8) as u8;
                out[last + 3] = f as u8;
            }
            2 => out.push(0x80),
            _ => out.extend_from_slice(&[0x80, 201, 0, 2, 1, 2, 3, 4]),
        }
    })
}

/// SR / RR / BYE strings of every length 4, 8 ... 900 bytes x every count 0..=31 (exactly framed, no padding bit /
/// padding bit with a final byte of 4): the count-implied size against the total, over the whole product.
pub fn count_x_length_space() -> ByteSpace {
    ByteSpace::new("reports-and-byes-count-x-length", 3 * 32 * 225 * 2, move |idx, out| {
        out.clear();
        let pt = [200u8, 201, 203][(idx % 3) as usize];
        let count = ((idx / 3) % 32) as u8;
        let words = ((idx / 96) % 225) as usize + 1;
        let padded = idx / (96 * 225) == 1;
        out.extend_from_slice(&[0x80 | if padded { 0x20 } else { 0 } | count, pt, ((words - 1) >> 8) as u8, (words - 1) as u8]);
        out.extend((4..words * 4).map(|j| ((j * 7 + count as usize) % 249) as u8 | 2));
        if padded && words > 1 {
            let n = out.len();
            out[n - 1] = 4;
        }
    })
}
