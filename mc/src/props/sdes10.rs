//! C10: SDES decoding against the three-valued reference tokeniser.

use super::bytes;
use super::gens;
use crate::engine::guard;
use crate::engine::json::hex_short;
use crate::engine::run::{fp_bytes, Ctx, Local, Tier};
use crate::engine::space::{b26, B12};
use crate::refmodel::model::*;
use crate::refmodel::read::{self, SdesClass};
use crate::refmodel::{repr, wire};
use crate::subject::observe;
use rtcp_types::prelude::*;
use rtcp_types::*;

fn sdes_case(s: &[u8], l: &mut Local) {
    l.evals += 1;
    l.states += 1;
    l.sample(|| hex_short(s));
    // only strings framed as an SDES packet are in the property's domain
    if !read::framing_defects(s, Some(202), 4).is_empty() {
        l.hit("not framed as SDES (C08's domain)");
        return;
    }
    l.nontrivial(fp_bytes(s));
    let tok = read::sdes_tokenise(s);
    l.transitions += 1;
    let l_idx = l.cur_idx;
    let r = guard::catch(|| match Sdes::parse(s) {
        Err(e) => Err(e),
        Ok(sd) => {
            let chunks = observe::obs_chunks(&sd, s.len());
            let lens: Vec<usize> = sd.chunks().take(observe::step_bound(s.len())).map(|c| c.length()).collect();
            // a parsed view is a pure function of the bytes: having been asked questions must not make it differ
            // (==) from a fresh parse of the same bytes
            let fresh = Sdes::parse(s);
            let same = match &fresh {
                Ok(f) => *f == sd,
                Err(_) => false,
            };
            if !same {
                return Ok((Err(observe::ObsErr::Other("after its accessors were called, the parsed value is no longer equal to a fresh parse of the same bytes".into())), lens));
            }
            // the same packet reached by another route - a clone, the generic parser and its conversions, an unknown
            // packet's conversion, the compound iteration; one of them per case, by the case index - reads the same
            let h = l_idx ^ (l_idx >> 3) ^ (l_idx >> 8) ^ (l_idx >> 15);
            let route = h % 7;
            let other: Result<Vec<Chunk>, String> = (|| {
                let o = |x: &Sdes| observe::obs_chunks(x, s.len()).map_err(|e| format!("{:?}", e));
                match route {
                    0 => o(&sd.clone()),
                    1 => o(&Packet::parse(s).map_err(|e| format!("Packet::parse = {:?}", e))?.try_as::<Sdes>().map_err(|e| format!("try_as = {:?}", e))?),
                    2 => o(&Sdes::try_from(&Packet::parse(s).map_err(|e| format!("Packet::parse = {:?}", e))?).map_err(|e| format!("try_from(&Packet) = {:?}", e))?),
                    3 => o(&Sdes::try_from(Packet::parse(s).map_err(|e| format!("Packet::parse = {:?}", e))?).map_err(|e| format!("try_from(Packet) = {:?}", e))?),
                    4 => o(&Unknown::parse(s).map_err(|e| format!("Unknown::parse = {:?}", e))?.try_as::<Sdes>().map_err(|e| format!("Unknown::try_as = {:?}", e))?),
                    5 => match Compound::parse(s).map_err(|e| format!("Compound::parse = {:?}", e))?.next() {
                        Some(Ok(Packet::Sdes(x))) => o(&x),
                        other => Err(format!("the compound yields {:?}", other.map(|r| r.map(|_| "another packet")))),
                    },
                    _ => {
                        // a clone of a clone, observed after the original was dropped
                        let c2 = {
                            let c1 = sd.clone();
                            c1.clone()
                        };
                        o(&c2)
                    }
                }
            })();
            match (&other, &chunks) {
                (Ok(a), Ok(b)) if a == b => {}
                (Ok(_), Err(_)) => {}
                _ => return Ok((Err(observe::ObsErr::Other(format!("reached by route {} (0 clone, 1 Packet::try_as, 2 TryFrom<&Packet>, 3 TryFrom<Packet>, 4 Unknown::try_as, 5 Compound, 6 clone of a clone) the packet reads {:?}", route, other))), lens)),
            }
            Ok((chunks, lens))
        }
    });
    l.validated += 1;
    let r = match r {
        Err(pi) => {
            l.subject_panic("Sdes::parse+accessors", &pi, || hex_short(s));
            return;
        }
        Ok(r) => r,
    };
    match tok.class {
        SdesClass::Unconstrained => l.hit("class: unconstrained (odd padding count)"),
        SdesClass::MustReject => {
            l.hit("class: must-reject");
            if r.is_ok() {
                l.violation(format!("ill-formed-accepted:{}", tok.why), || hex_short(s), || format!("accepted although {}: {:?}", tok.why, r));
            }
        }
        SdesClass::MustAccept | SdesClass::Either => {
            let must = tok.class == SdesClass::MustAccept;
            l.hit(if must { "class: must-accept" } else { "class: either" });
            match r {
                Err(e) => {
                    if must {
                        l.violation("well-formed-rejected", || hex_short(s), || format!("{:?}; the RFC reading is {:?}", e, tok.chunks));
                    } else {
                        l.hit("either: rejected");
                    }
                }
                Ok((Err(oe), _)) => l.violation("accessor-failed", || hex_short(s), || format!("{:?}", oe)),
                Ok((Ok(chunks), lens)) => {
                    if !must {
                        l.hit("either: accepted");
                    }
                    if chunks != tok.chunks {
                        let what = if chunks.len() != tok.chunks.len() {
                            "chunk-count"
                        } else if chunks.iter().zip(&tok.chunks).any(|(a, b)| a.ssrc != b.ssrc) {
                            "chunk-ssrc"
                        } else {
                            "items"
                        };
                        l.violation(format!("tokenisation-differs:{}", what), || hex_short(s), || format!("parser yields {:?}, the RFC reading is {:?}", chunks, tok.chunks));
                    } else if must && lens != tok.chunk_lens {
                        l.violation("chunk-length-wrong", || hex_short(s), || format!("SdesChunk::length() = {:?}, encoded lengths are {:?}", lens, tok.chunk_lens));
                    }
                }
            }
        }
    }
}

pub fn c10(ctx: &mut Ctx) {
    ctx.rule = "(a) ALL SDES-framed strings with short bodies over a small alphabet, P in {0,1}; (b) every well-formed SDES packet of the C03 configuration spaces encoded by the independent encoder; (c) k<=2 byte substitutions of the SDES members of the base set W and their truncations/extensions. Each string is classified by the three-valued reference tokeniser (must-accept with tokens and chunk lengths / must-reject / either-but-consistent / unconstrained) and compared with Sdes::parse + chunks()/items()/ssrc()/type_()/value()/priv_prefix()/length(); non-trivial = framed as SDES, distinct by fingerprint".into();
    ctx.bound("(a)", ctx.tier.pick("1 and 2 body words over {00,01,02,03,04,08,09,FF}; 3 words over {00,01,08,FF}", "1-2 words over 8 symbols; 3 words over {00,01,02,08,09,FF}; 4 words over {00,01,08,FF}"));
    ctx.bound("(c)", ctx.tier.pick("k=1 over all 256 values; k=2 over 12 symbols", "k=1 over 256 values; k=2 over 26 symbols"));
    ctx.assume("bodies longer than 4 words are covered only through (b) and (c)");
    let a8 = vec![0x00u8, 0x01, 0x02, 0x03, 0x04, 0x08, 0x09, 0xFF];
    let mut spaces = vec![bytes::sdes_bodies_space(1, a8.clone(), vec![0, 1, 2]), bytes::sdes_bodies_space(2, a8.clone(), vec![1, 2])];
    match ctx.tier {
        Tier::Quick => spaces.push(bytes::sdes_bodies_space(3, vec![0x00, 0x01, 0x08, 0xFF], vec![1, 2])),
        Tier::Thorough => {
            spaces.push(bytes::sdes_bodies_space(3, vec![0x00, 0x01, 0x02, 0x08, 0x09, 0xFF], vec![1]));
            spaces.push(bytes::sdes_bodies_space(4, vec![0x00, 0x01, 0x08, 0xFF], vec![1]));
        }
    }
    let sdes_bases: Vec<Vec<u8>> = gens::base_set().iter().filter(|p| matches!(p, Pkt::Sdes { .. })).map(wire::encode).collect();
    spaces.push(bytes::sdes_utf8_split_space());
    spaces.push(bytes::dev1_space(sdes_bases.clone()));
    spaces.push(bytes::trunc_ext_space(sdes_bases.clone()));
    match ctx.tier {
        Tier::Quick => spaces.push(bytes::dev2_space(sdes_bases, B12.to_vec(), 28)),
        Tier::Thorough => spaces.push(bytes::dev2_space(sdes_bases, b26(), 48)),
    }
    bytes::placement_bound(ctx);
    let lim = bytes::cross_limit(ctx);
    // in the unoptimised second build (common::unoptimised_build_pass) only the long inputs are run
    let child = super::common::is_frames_child();
    for sp in spaces {
        if child {
            continue;
        }
        sp.run(ctx, &sp.name, lim, |s, l| sdes_case(s, l));
    }
    // PRIV items whose length byte and prefix-length byte are both near 255 (raw strings: the builder cannot make the
    // ill-formed ones): length 248..=255 x prefix length 244..=255, the item alone / followed by a CNAME
    if !child {
        ctx.bound("long PRIV items", "raw SDES packets with one PRIV item of length 248..=255 x prefix-length byte 244..=255, alone and followed by another item");
        ctx.run_space("priv-length-x-prefix-length-near-255", 8 * 12 * 2, |idx, l| {
            let len = 248 + (idx % 8) as usize;
            let plen = 244 + ((idx / 8) % 12) as usize;
            let mut body: Vec<u8> = vec![0x01, 0x02, 0x03, 0x04, 8, len as u8];
            if len > 0 {
                body.push(plen as u8);
                body.extend((1..len).map(|i| b'a' + (i % 26) as u8));
            }
            if idx / 96 == 1 {
                body.extend_from_slice(&[1, 2, b'c', b'n']);
            }
            body.push(0);
            while body.len() % 4 != 0 {
                body.push(0);
            }
            let words = body.len() / 4;
            let mut s = vec![0x81, 202, (words >> 8) as u8, words as u8];
            s.extend_from_slice(&body);
            let residue = l.residue();
            sdes_case(crate::engine::place::place(&mut s, residue), l);
        });
    }
    // single chunks with more than 65 535 bytes of items (where a 16-bit sum of item lengths wraps)
    {
        let sp = bytes::giants_runs_space();
        ctx.bound("giant chunks", "6 SDES packets whose single chunk holds 258..33000 items and more than 65535 bytes (the header-only runs of the same space are outside the domain and skipped)");
        sp.run(ctx, &sp.name, 0, |s, l| sdes_case(s, l));
        // the 262144-byte packets of every type and fill: among them the SDES packets of 32767 minimal chunks
        let sp = bytes::giants_space();
        ctx.bound("giants", "the S6 giants (262144-byte packets of each type x 4 fills, among them SDES packets of 32767 8-byte chunks, ...)");
        sp.run(ctx, &sp.name, 0, |s, l| sdes_case(s, l));
    }
    if child {
        // the unoptimised second build ends here
        return;
    }
    for sp in gens::sdes_spaces(ctx.tier, ctx.seed) {
        let get = &sp.get;
        ctx.run_space(&format!("wellformed:{}", sp.name), sp.len, |idx, l| {
            let p = get(idx);
            if !repr::representable(&p) {
                return;
            }
            let img = wire::encode(&p);
            // self-check of the reference model alone (the subject is not involved): its tokeniser must call its
            // encoder's image well-formed
            if !read::framing_defects(&img, Some(202), 4).is_empty() || read::sdes_tokenise(&img).class != SdesClass::MustAccept {
                crate::engine::run::machinery_failure(&format!("the reference tokeniser does not classify the reference encoder's own SDES image as well-formed: {}", hex_short(&img)));
            }
            let mut img = img;
            let residue = l.residue();
            sdes_case(crate::engine::place::place(&mut img, residue), l);
        });
    }
    // iterator call histories on chunks() and items() of the SDES members of the base set
    {
        let depth = ctx.tier.pick(3u32, 4u32);
        let bases: Vec<Vec<u8>> = gens::base_set().iter().filter(|p| matches!(p, Pkt::Sdes { .. })).map(wire::encode).collect();
        ctx.bound("iterator histories", format!("Sdes::chunks and SdesChunk::items of the {} SDES packets of the base set: all call sequences of length <= {} over {{next, nth(0), nth(1), nth(2), nth(7), take(2).count()}} x 10 endings, size_hint() after every call", bases.len(), depth));
        ctx.run_space("iterator-histories", bases.len() as u64, |idx, l| {
            let img = &bases[idx as usize];
            l.evals += 1;
            l.sample(|| format!("iterator histories on {}", hex_short(img)));
            l.nontrivial(crate::engine::run::fp_combine(fp_bytes(img), 0x17E4));
            let show = || hex_short(img);
            let r = guard::catch(|| -> Result<(), String> {
                use super::common::{iterator_histories, iterator_reference};
                let sd = Sdes::parse(img).map_err(|e| format!("{:?}", e))?;
                let reference = iterator_reference(sd.chunks(), img.len());
                iterator_histories(l, "Sdes::chunks", &|| sd.chunks(), &reference, depth, &show);
                for c in sd.chunks().take(img.len()) {
                    let reference = iterator_reference(c.items(), img.len());
                    iterator_histories(l, "SdesChunk::items", &|| c.items(), &reference, depth, &show);
                }
                Ok(())
            });
            match r {
                Err(pi) => l.subject_panic("iterator-history", &pi, show),
                Ok(Err(m)) => l.violation("iterator-history:setup", show, || m),
                Ok(Ok(())) => {}
            }
        });
        ctx.require_hit("iterator history agrees with repeated next()");
    }
    ctx.require_hit("class: must-accept");
    ctx.require_hit("class: must-reject");
    ctx.require_hit("class: either");
    ctx.require_hit("either: accepted");
    super::common::unoptimised_build_pass(ctx, "the long inputs (S6 giants, SDES packets whose single chunk holds up to 33000 items)");
}
