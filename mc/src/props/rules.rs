//! C16's configuration spaces: every rule parameter at {limit-1, limit, limit+1, type max} — as full
//! products per builder type, so all pairs (and more) of simultaneously violated rules occur.

use super::gens::{sentinel_rb, CfgSpace};
use crate::engine::run::Tier;
use crate::engine::space::*;
use crate::refmodel::model::*;

fn all_pads() -> Vec<u8> {
    (0..=255u8).collect()
}

pub fn item_cases() -> Vec<Item> {
    let mut v = Vec::new();
    for ty in [1u8, 255] {
        for n in [0usize, 1, 254, 255, 256, 257] {
            v.push(Item::new(ty, &vec![b'v'; n]));
        }
    }
    // a prefix set on a non-PRIV item is documented as ignored: whatever its length, the item is judged (and
    // written) by its value alone
    for pl in [1usize, 254, 255, 256, 300] {
        for n in [0usize, 255, 256] {
            v.push(Item { ty: 2, prefix: vec![0x71u8; pl], value: vec![b'w'; n] });
        }
    }
    // PRIV: the band prefix+value in 253..=256
    for pl in [0usize, 1, 127, 253, 254, 255, 256, 300] {
        for total in [253usize, 254, 255, 256] {
            if total >= pl {
                v.push(Item::priv_(&vec![0x70u8; pl], &vec![b'v'; total - pl]));
            }
        }
        if pl > 256 {
            v.push(Item::priv_(&vec![0x70u8; pl], b""));
        }
    }
    v
}

pub const APP_RULE_NAMES: [&str; 15] = ["", "a", "abc", "abcd", "abcde", "é", "abé", "€a", "ab\u{80}", "abcdé", "name\0", "ab\0\0\0", "\0\0\0\0\0", "abcd\0\0", "\0\0\0\0"];

pub fn rule_spaces(_tier: Tier) -> Vec<CfgSpace> {
    let mut v = Vec::new();

    // SR / RR: padding (all 256) x block count {0,30,31,32,33} x cumulative-lost of one block
    let cums: [u32; 6] = [0, 0xFF_FFFE, 0xFF_FFFF, 0x100_0000, 0x100_0001, 0xFFFF_FFFF];
    let counts: [usize; 5] = [0, 30, 31, 32, 33];
    let r = Radix::new(&[256, 5, 6, 2]);
    let rl = r.len();
    v.push(CfgSpace::new("rules-sr-rr", rl, move |idx| {
        let c = r.coords(idx);
        let n = counts[c[1] as usize];
        let mut blocks: Vec<Rb> = (0..n).map(|i| sentinel_rb(i, 0)).collect();
        if n > 0 {
            let k = (idx as usize * 7) % n;
            blocks[k].cum = cums[c[2] as usize];
        }
        let pad = c[0] as u8;
        if c[3] == 0 {
            Pkt::Sr { ssrc: 1, ntp: 2, rtp: 3, pc: 4, oc: 5, blocks, pad }
        } else {
            Pkt::Rr { ssrc: 1, blocks, pad }
        }
    }));

    // the loss word: every fraction-lost value x cumulative-loss values on both sides of 24 bits, among them values
    // whose top byte is contained in / equal to / the complement of the fraction (the two share a wire word)
    v.push(CfgSpace::new("rules-loss-word", 256 * 10 * 2, move |idx| {
        let fraction = (idx % 256) as u8;
        let f = fraction as u32;
        let cum = [0x00FF_FFFFu32, 0x0100_0000, 0x0100_0005, (f << 24) | 5, ((f & 0x0F) << 24) | 7, ((!f & 0xFF) << 24) | 9, 0x8000_0000, 0xFF00_0001, 0xFFFF_FFFF, 0x0080_0000][((idx / 256) % 10) as usize];
        let mut b = sentinel_rb(0, 0);
        b.fraction = fraction;
        b.cum = cum;
        if idx / 2560 == 0 {
            Pkt::Rr { ssrc: 1, blocks: vec![b], pad: 0 }
        } else {
            Pkt::Sr { ssrc: 1, ntp: 2, rtp: 3, pc: 4, oc: 5, blocks: vec![sentinel_rb(1, 0), b], pad: 4 }
        }
    }));

    // SDES: padding x chunk count x item case (placed in one chunk)
    let items = item_cases();
    let ni = items.len() as u64;
    let r = Radix::new(&[256, 5, ni]);
    let rl = r.len();
    v.push(CfgSpace::new("rules-sdes", rl, move |idx| {
        let c = r.coords(idx);
        let n = counts[c[1] as usize];
        let mut chunks: Vec<Chunk> = (0..n).map(|i| Chunk { ssrc: i as u32, items: vec![] }).collect();
        if n > 0 {
            let k = (idx as usize * 5) % n;
            chunks[k].items.push(Item::new(1, b"ok"));
            chunks[k].items.push(items[c[2] as usize].clone());
        }
        Pkt::Sdes { chunks, pad: c[0] as u8 }
    }));

    // BYE: padding x source count x reason length
    let rl_: [usize; 6] = [0, 1, 254, 255, 256, 257];
    let r = Radix::new(&[256, 5, 6]);
    let rl = r.len();
    v.push(CfgSpace::new("rules-bye", rl, move |idx| {
        let c = r.coords(idx);
        Pkt::Bye { ssrcs: (0..counts[c[1] as usize]).map(|i| i as u32).collect(), reason: "r".repeat(rl_[c[2] as usize]), pad: c[0] as u8 }
    }));

    // BYE reasons of multi-byte characters: the limit is 255 bytes, not 255 characters
    v.push(CfgSpace::new("rules-bye-multibyte-reasons", super::gens::LONG_REASONS * 3, move |idx| {
        let reason = super::gens::long_multibyte_text((idx % super::gens::LONG_REASONS) as usize);
        Pkt::Bye { ssrcs: vec![1, 2], reason, pad: [0u8, 4, 6][(idx / super::gens::LONG_REASONS) as usize] }
    }));

    // APP: padding x subtype x name x payload length 0..=9
    let subs: [u8; 6] = [0, 30, 31, 32, 33, 255];
    let r = Radix::new(&[256, 6, APP_RULE_NAMES.len() as u64, 10]);
    let rl = r.len();
    v.push(CfgSpace::new("rules-app", rl, move |idx| {
        let c = r.coords(idx);
        Pkt::App { ssrc: 0x0A0A_0A0A, subtype: subs[c[1] as usize], name: APP_RULE_NAMES[c[2] as usize].to_string(), data: vec![0xDA; c[3] as usize], pad: c[0] as u8 }
    }));

    // Unknown: padding x count x payload length 0..=9 x type
    let r = Radix::new(&[256, 6, 10, 3]);
    let rl = r.len();
    v.push(CfgSpace::new("rules-unknown", rl, move |idx| {
        let c = r.coords(idx);
        Pkt::Unknown { pt: [0u8, 200, 255][c[3] as usize], count: subs[c[1] as usize], data: vec![0xDB; c[2] as usize], pad: c[0] as u8 }
    }));

    // feedback: padding x kind x FCI case
    let mut fcis: Vec<Fci> = vec![
        Fci::Nack(vec![]),
        Fci::Nack(vec![1]),
        Fci::Fir(vec![(1, 1)]),
        Fci::Sli(vec![(1, 1, 1)]),
        Fci::Sli(vec![(0x1FFF, 0x1FFF, 0x3F)]),
        Fci::Pli,
    ];
    for pt in [0u8, 126, 127, 128, 129, 255] {
        for overrun in 0..=10u8 {
            for data in [vec![], vec![0xFF], vec![0xFF, 0xFF]] {
                fcis.push(Fci::Rpsi { pt, data, overrun });
            }
        }
    }
    fcis.push(Fci::Rpsi { pt: 5, data: vec![1], overrun: 255 });
    let nf = fcis.len() as u64;
    let r = Radix::new(&[256, 2, nf]);
    let rl = r.len();
    v.push(CfgSpace::new("rules-feedback", rl, move |idx| {
        let c = r.coords(idx);
        Pkt::Fb { kind: if c[1] == 0 { Kind::Transport } else { Kind::Payload }, sender: 1, media: 2, fci: fcis[c[2] as usize].clone(), pad: c[0] as u8 }
    }));

    // list lengths where a count narrowed to 8 or 16 bits wraps back into 0..=31: 256.., 512.., 65536..
    let wide: [usize; 12] = [34, 255, 256, 257, 287, 288, 511, 512, 543, 65_535, 65_536, 65_567];
    v.push(CfgSpace::new("rules-wide-counts", 12 * 4 * 2, move |idx| {
        let n = wide[(idx % 12) as usize];
        let pad = if idx / 48 == 0 { 0u8 } else { 5 };
        match (idx / 12) % 4 {
            0 => Pkt::Sr { ssrc: 1, ntp: 2, rtp: 3, pc: 4, oc: 5, blocks: (0..n).map(|i| sentinel_rb(i, 0)).collect(), pad },
            1 => Pkt::Rr { ssrc: 1, blocks: (0..n).map(|i| sentinel_rb(i, 0)).collect(), pad },
            2 => Pkt::Bye { ssrcs: (0..n as u32).collect(), reason: String::new(), pad },
            _ => Pkt::Sdes { chunks: (0..n).map(|i| Chunk { ssrc: i as u32, items: vec![] }).collect(), pad },
        }
    }));

    // total size one word under / at / over 65536 words (large allocations; a few dozen cases)
    v.push(CfgSpace::new("rules-total-size", 3 * 6 * 3, move |idx| {
        let step = (idx % 3) as usize; // 0: 65535 words, 1: 65536 words, 2: 65537 words
        let pad: u8 = [0u8, 4, 8][(idx / 18) as usize];
        let target = 262140 + 4 * step - pad as usize; // size of the packet without its padding
        match (idx / 3) % 6 {
            0 => Pkt::App { ssrc: 1, subtype: 0, name: "big".into(), data: vec![0xAB; target - 12], pad },
            1 => Pkt::Unknown { pt: 207, count: 0, data: vec![0xCD; target - 4], pad },
            2 => {
                // one chunk: 4 (ssrc) + items + >=1 null, rounded up; items of 257 bytes plus one sized to fit
                let chunk = target - 4;
                let items_bytes = chunk - 4 - 1; // exactly one terminating null, already aligned
                let full = items_bytes / 257;
                let rest = items_bytes - full * 257;
                let mut items: Vec<Item> = (0..full).map(|_| Item::new(2, &[b'x'; 255])).collect();
                if rest >= 2 {
                    items.push(Item::new(3, &vec![b'y'; rest - 2]));
                } else if rest == 1 {
                    // shorten one full item by one byte and add an empty item (2 bytes)
                    items.pop();
                    items.push(Item::new(2, &[b'x'; 254]));
                    items.push(Item::new(3, b""));
                }
                Pkt::Sdes { chunks: vec![Chunk { ssrc: 1, items }], pad }
            }
            3 => Pkt::Fb { kind: Kind::Payload, sender: 1, media: 2, fci: Fci::Sli((0..(target - 12) / 4).map(|i| (i as u16 & 0x1FFF, 1, 1)).collect()), pad },
            4 => Pkt::Fb { kind: Kind::Payload, sender: 1, media: 2, fci: Fci::Rpsi { pt: 1, data: vec![0x5A; target - 12 - 2], overrun: 0 }, pad },
            _ => {
                // FIR entries are 8 bytes: 32765 / 32766 / 32767 entries (12 + 8n bytes)
                let n = 32765 + step;
                Pkt::Fb { kind: Kind::Payload, sender: 1, media: 2, fci: Fci::Fir((0..n as u32).map(|i| (i, i as u8)).collect()), pad }
            }
        }
    }));
    v.push(super::gens::fir_calls_vs_entries_space());
    v
}
