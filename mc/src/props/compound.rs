//! C11 (compound parsing tiles the datagram and iterates it faithfully) and C14 (a compound is
//! the concatenation of its members and parses back to them).

use super::framing::packet_results_equal;
use super::targets::{self, leaves, members_broken, Target};
use crate::engine::guard;
use crate::engine::json::hex_short;
use crate::engine::run::{fp_bytes, Ctx, Local};
use crate::engine::space::*;
use crate::refmodel::model::*;
use crate::refmodel::read;
use crate::refmodel::repr::{self, WErr};
use crate::subject::build;
use rtcp_types::prelude::*;
use rtcp_types::*;

/// Lock-step comparison of the real iterator with the two-variable model (tile index, done).
fn c11_case(s: &[u8], l: &mut Local) {
    c11_walk(s, l, false);
    if s.len() <= 4096 {
        c11_walk(s, l, true);
    }
}

/// FIR entries come in the order of a per-instance hash map: two builder instances may differ in it
fn has_fir(ms: &[Member]) -> bool {
    ms.iter().any(|m| match m {
        Member::Plain(p) | Member::Wrapped(p) => matches!(p, Pkt::Fb { fci: Fci::Fir(v), .. } if v.len() > 1),
        Member::Nested(inner) => has_fir(inner),
        _ => false,
    })
}

fn c11_walk(s: &[u8], l: &mut Local, perturbed: bool) {
    l.evals += 1;
    l.states += 1;
    l.sample(|| hex_short(s));
    let tiles = read::tile(s);
    l.transitions += 1;
    let parsed = match guard::catch(|| Compound::parse(s)) {
        Err(pi) => {
            l.subject_panic("Compound::parse", &pi, || hex_short(s));
            return;
        }
        Ok(r) => r,
    };
    l.validated += 1;
    let first_len_in_range = s.len() >= 4 && 4 * (read::rd16(s, 2) as usize + 1) <= s.len();
    if first_len_in_range {
        l.nontrivial(fp_bytes(s));
    }
    match (&tiles, parsed) {
        (None, Err(_)) => l.hit("rejected (no exact tiling)"),
        (None, Ok(_)) => l.violation("untileable-accepted", || hex_short(s), || "Compound::parse accepted a string the length chain does not partition exactly".to_string()),
        (Some(t), Err(e)) => l.violation("tileable-rejected", || hex_short(s), || format!("{} tiles end exactly at the end, yet Compound::parse = {:?}", t.len(), e)),
        (Some(t), Ok(mut c)) => {
            match t.len() {
                1 => l.hit("accepted: 1 tile"),
                2 => l.hit("accepted: 2 tiles"),
                3 => l.hit("accepted: 3 tiles"),
                _ => l.hit("accepted: 4+ tiles"),
            }
            // model state
            let mut i = 0usize;
            let mut done = false;
            // the walk is done twice: plainly, and with the iterator formatted (`{:?}`) and asked for its size hint
            // before every call - observations that must not disturb it
            let perturb = perturbed;
            for step in 0..t.len() + 3 {
                l.transitions += 1;
                if perturb {
                    let _ = guard::catch(|| {
                        let _ = crate::engine::run::fp_debug(&c);
                        let _ = c.size_hint();
                    });
                }
                let got = match guard::catch(|| c.next()) {
                    Err(pi) => {
                        l.subject_panic("Compound::next", &pi, || format!("{} at call {}", hex_short(s), step));
                        return;
                    }
                    Ok(g) => g,
                };
                let want: Option<Result<Packet, RtcpParseError>> = if done || i >= t.len() {
                    None
                } else {
                    let (a, b) = t[i];
                    let r = Packet::parse(&s[a..b]);
                    i += 1;
                    if r.is_err() {
                        done = true;
                    }
                    Some(r)
                };
                l.validated += 1;
                let same = match (&got, &want) {
                    (None, None) => true,
                    (Some(g), Some(w)) => packet_results_equal(g, w),
                    _ => false,
                };
                if !same {
                    let key = match (&got, &want) {
                        (Some(_), None) => {
                            if done {
                                "iterator-continues-after-error"
                            } else {
                                "iterator-yields-more-than-tiles"
                            }
                        }
                        (None, Some(_)) => "iterator-stops-early",
                        _ => "iterator-item-differs-from-Packet::parse",
                    };
                    l.violation(key, || hex_short(s), || format!("call {} of next(): got {:?}, expected {:?} (tiles {:?})", step, got, want, t));
                    return;
                }
                if let Some(Err(_)) = &want {
                    match i {
                        1 => l.hit("first failing tile: #1"),
                        2 => l.hit("first failing tile: #2"),
                        _ => l.hit("first failing tile: #3+"),
                    }
                }
            }
        }
    }
}

use super::bytes::tile_menu;
const KINDS: u64 = 15;

const TAILS: u64 = 15;

fn apply_tail(v: &mut Vec<u8>, last_start: Option<usize>, tail: u64) {
    match tail {
        0 => {}
        1..=4 => {
            let n = tail as usize;
            let l = v.len().saturating_sub(n);
            v.truncate(l);
        }
        5..=8 => {
            for k in 0..(tail - 4) {
                v.push(0x80 | k as u8);
            }
        }
        9 | 10 => {
            if let Some(st) = last_start {
                if v.len() >= st + 4 {
                    let f = read::rd16(v, st + 2);
                    let f = if tail == 9 { f.wrapping_add(1) } else { f.wrapping_sub(1) };
                    v[st + 2] = (f >> 8) as u8;
                    v[st + 3] = f as u8;
                }
            }
        }
        11 => v.extend_from_slice(&[0x80, 203, 0xFF, 0xFF]), // a bare header claiming 0xFFFF words
        12 => v.extend_from_slice(&[0x80, 203]),             // half a header
        13 => v.extend_from_slice(&[0x80, 203, 0, 1]),       // a header claiming one more word than there is
        _ => v.extend_from_slice(&[0, 0, 0, 0]),             // an all-zero word: a version-0 packet of one word
    }
}

pub fn c11(ctx: &mut Ctx) {
    ctx.rule = "(a) all tile sequences of length 0..=d from a 15-kind menu (5 well-formed kinds incl. a padded packet, 10 kinds whose parse fails, three of them with SDES item-level errors) x 15 tail variants (truncations, junk, last length field +-1, bare over-long header ...), plus sequences with a 262144-byte tile; (b) all byte strings of length 0..=12 (thorough: 16) whose length-field bytes range over {00,FF}x{00,01,02,03,FF} and whose other bytes over {00,80,81,C9,CB} (first byte of each header slot: also A0); on each: Compound::parse is Ok iff the reference tiling is exact, and tiles+3 calls of next() are compared in lock-step with the model (tile index, done) whose items are Packet::parse of each tile; non-trivial = non-empty input whose first length field is in range, distinct by fingerprint".into();
    let depth = ctx.tier.pick(4u32, 5u32);
    ctx.bound("(a) tile sequences", format!("length 0..={} over 15 kinds x 15 tails", depth));
    ctx.bound("(b) strings", ctx.tier.pick("every length 0..=12", "every length 0..=12 fully, 13..=16 with the 4th header slot restricted"));
    let menu = tile_menu();
    assert_eq!(menu.len() as u64, KINDS);
    let nseq = seq_count(KINDS, depth);
    super::bytes::placement_bound(ctx);
    // in the unoptimised second build (common::unoptimised_build_pass) only the long inputs are run
    let child = super::common::is_frames_child();
    ctx.run_space("tile-sequences-x-tails", if child { 0 } else { nseq * TAILS * crate::engine::place::RESIDUES }, |idx, l| {
        let (idx, residue) = crate::engine::place::split(idx, true);
        let seq = seq_decode(KINDS, idx / TAILS);
        let mut v = Vec::new();
        let mut last = None;
        for k in &seq {
            last = Some(v.len());
            v.extend_from_slice(&menu[*k as usize]);
        }
        apply_tail(&mut v, last, idx % TAILS);
        c11_case(crate::engine::place::place(&mut v, residue), l);
    });
    // the giant tile: sequences of length <= 2 over the menu plus one 262144-byte unknown packet
    let nseq2 = seq_count(KINDS + 1, 2);
    ctx.run_space("tile-sequences-with-giant", nseq2 * TAILS, |idx, l| {
        let seq = seq_decode(KINDS + 1, idx / TAILS);
        if !seq.contains(&KINDS) {
            l.hit("(no giant in this sequence; covered above)");
            return;
        }
        let mut v = Vec::new();
        let mut last = None;
        for k in &seq {
            last = Some(v.len());
            if *k == KINDS {
                let st = v.len();
                v.resize(st + 262144, 0x5A);
                v[st] = 0x80;
                v[st + 1] = 207;
                v[st + 2] = 0xFF;
                v[st + 3] = 0xFF;
            } else {
                v.extend_from_slice(&menu[*k as usize]);
            }
        }
        apply_tail(&mut v, last, idx % TAILS);
        let residue = l.residue();
        c11_case(crate::engine::place::place(&mut v, residue), l);
    });
    // long chains: 7..130 mixed-size tiles x 12 tails (where a fixed-size cache or a capped up-front walk runs out)
    {
        let sp = super::bytes::long_chain_space();
        ctx.bound("long chains", "chains of {7,8,9,15..18,31..34,63,65,130,255,256,257,300,513,1025} well-formed tiles of mixed sizes (two size patterns) x 12 tail variants");
        sp.run(ctx, &sp.name, super::bytes::cross_limit(ctx), |s, l| c11_case(s, l));
    }
    // every tile count up to gens::dense_bound
    if !child {
        let nd = super::gens::dense_bound(ctx.tier);
        let sp = super::bytes::dense_chain_space(nd);
        ctx.bound("chains of every length", format!("datagrams of every tile count 1..={} x 4 tails (exact, last length field + 1, a stray byte, a header claiming more than is left)", nd));
        sp.run(ctx, &sp.name, 0, |s, l| c11_case(s, l));
        let sp = super::bytes::big_chain_space();
        ctx.bound("mid-size tiles across 64K and 256K", "datagrams of 1100 / 1400 / 4000 / 24000-byte tiles whose total crosses 65507, 65536 and 262144 bytes x 4 tails");
        sp.run(ctx, &sp.name, 0, |s, l| c11_case(s, l));
        let sp = super::bytes::dense_total_space(nd);
        ctx.bound("datagrams of every total size", format!("three unremarkable tiles whose sizes sum to every total 24..={} bytes, exactly tiled and with a stray byte", nd * 4));
        sp.run(ctx, &sp.name, 0, |s, l| c11_case(s, l));
    }
    // very long runs of one header-only packet (65 536, 65 537, 200 000 tiles: where a 16-bit tile counter wraps or a
    // per-tile recursion runs out of stack) and single-tile SDES giants
    {
        let sp = super::bytes::giants_runs_space();
        ctx.bound("giant runs", "runs of 65536 / 65537 / 200000 header-only packets of each of 10 packet types; 6 SDES packets with one chunk of more than 65535 bytes of items");
        sp.run(ctx, &sp.name, 0, |s, l| c11_case(s, l));
    }
    if child {
        return;
    }
    // iterator call histories: every sequence of next / nth / take-count calls up to a depth, then collect / count /
    // last, on the compound of every tile sequence of length 1..=3, against what plain next() calls give (which the
    // spaces above compare with the model)
    {
        let hd = ctx.tier.pick(3u32, 4u32);
        ctx.bound("iterator histories", format!("compounds of all tile sequences of length 1..=3 over the menu: all call sequences of length <= {} over {{next, nth(0), nth(1), nth(2), nth(7), take(2).count()}} x 10 endings, size_hint() after every call", hd));
        let n3 = seq_count(KINDS, 3) - 1;
        ctx.run_space("iterator-histories", n3, |idx, l| {
            let seq = seq_decode(KINDS, idx + 1);
            let mut v = Vec::new();
            for k in &seq {
                v.extend_from_slice(&menu[*k as usize]);
            }
            l.evals += 1;
            let residue = l.residue();
            let v = crate::engine::place::place(&mut v, residue);
            l.sample(|| format!("iterator histories on {}", hex_short(v)));
            let show = || hex_short(v);
            let r = guard::catch(|| -> Result<(), String> {
                let c = Compound::parse(v).map_err(|e| format!("{:?}", e))?;
                let reference = super::common::iterator_reference(c, seq.len() + 3);
                super::common::iterator_histories_obs(l, "Compound", &|| Compound::parse(v).expect("parsed a moment ago"), &reference, hd, &show, &|c| {
                    let _ = crate::engine::run::fp_debug(c);
                });
                Ok(())
            });
            match r {
                Err(pi) => l.subject_panic("iterator-history", &pi, show),
                Ok(Err(m)) => l.violation("iterator-history:setup", show, || m),
                Ok(Ok(())) => {}
            }
        });
        ctx.require_hit("iterator history agrees with repeated next()");
    }
    // (b) all short strings over the restricted alphabets
    let hi = [0x00u8, 0xFF];
    let lo = [0x00u8, 0x01, 0x02, 0x03, 0xFF];
    let other = [0x00u8, 0x80, 0x81, 0xC9, 0xCB];
    // first byte of each header slot: also the padding bit (a padded packet is legal at any position on the wire)
    let first = [0x00u8, 0x80, 0x81, 0xC9, 0xCB, 0xA0];
    let max_len = ctx.tier.pick(12usize, 16usize);
    for n in 0..=max_len {
        let dims: Vec<u64> = (0..n)
            .map(|i| match i % 4 {
                2 => {
                    if i >= 12 {
                        1
                    } else {
                        2
                    }
                }
                3 => {
                    if i >= 12 {
                        2
                    } else {
                        5
                    }
                }
                0 => {
                    if i >= 12 {
                        2
                    } else {
                        first.len() as u64
                    }
                }
                _ => {
                    if i >= 12 {
                        2
                    } else {
                        5
                    }
                }
            })
            .collect();
        let r = Radix::new(&dims);
        let total = r.len();
        ctx.run_space(&format!("all-strings-of-length-{}", n), total, |idx, l| {
            let c = r.coords(idx);
            let mut v: Vec<u8> = (0..n)
                .map(|i| {
                    let x = c[i] as usize;
                    if i >= 12 {
                        // 4th header slot restricted: {exact, over-long} length low byte, two values elsewhere
                        match i % 4 {
                            2 => 0x00,
                            3 => [0x00u8, 0x01][x],
                            _ => [0x80u8, 0xCB][x],
                        }
                    } else {
                        match i % 4 {
                            0 => first[x],
                            2 => hi[x],
                            3 => lo[x],
                            _ => other[x],
                        }
                    }
                })
                .collect();
            let residue = l.residue();
            c11_case(crate::engine::place::place(&mut v, residue), l);
        });
    }
    ctx.require_hit("accepted: 1 tile");
    ctx.require_hit("accepted: 3 tiles");
    ctx.require_hit("rejected (no exact tiling)");
    ctx.require_hit("first failing tile: #1");
    ctx.require_hit("first failing tile: #2");
    super::common::unoptimised_build_pass(ctx, "the long inputs (sequences with a 262144-byte tile, chains of up to 1025 tiles, runs of up to 200000 header-only packets, giant SDES chunks)");
}

// ---------------------------------------------------------------------------------------------
// C14

fn member_target(m: &Member) -> Target {
    match m {
        Member::Plain(p) => Target::Pkt(p.clone(), build::Variant::PLAIN),
        Member::Wrapped(p) => Target::Pkt(p.clone(), build::Variant::new(false, build::Wrap::Packet)),
        Member::Ext { pt, min, count, ssrc, words, pad } => Target::Ext { pt: *pt, min: *min, count: *count, ssrc: *ssrc, words: words.clone(), pad: *pad },
        Member::Nested(inner) => Target::Compound(inner.clone()),
    }
}

/// Sort the 8-byte entries of every FIR packet (PT 206, FMT 4) of a well-tiled byte string.
fn canon_fir(v: &mut [u8]) {
    if let Some(tiles) = read::tile(v) {
        for (a, b) in tiles {
            if b - a >= 12 && v[a + 1] == 206 && v[a] & 0x1F == 4 && v[a] >> 6 == 2 {
                let pad = if v[a] & 0x20 != 0 { v[b - 1] as usize } else { 0 };
                if pad % 4 == 0 && a + 12 + pad <= b && (b - pad - (a + 12)) % 8 == 0 {
                    let region = &mut v[a + 12..b - pad];
                    let mut entries: Vec<[u8; 8]> = region.chunks_exact(8).map(|c| c.try_into().unwrap()).collect();
                    entries.sort();
                    for (i, e) in entries.iter().enumerate() {
                        region[8 * i..8 * i + 8].copy_from_slice(e);
                    }
                }
            }
        }
    }
}

/// a member's own announced size and image, built on its own
fn member_alone(m: &Member) -> Result<Vec<u8>, WErr> {
    let t = member_target(m);
    let mut out: Result<Vec<u8>, WErr> = Err(WErr::Other("not built".into()));
    t.with_writer(&mut |w| {
        out = match w.size() {
            Err(e) => Err(e),
            Ok(n) => {
                let mut buf = vec![0xA5u8; n];
                match w.write(&mut buf) {
                    Ok(m) if m == n => Ok(buf),
                    Ok(m) => Err(WErr::Other(format!("member announced {} and wrote {}", n, m))),
                    Err(e) => Err(e),
                }
            }
        }
    });
    out
}

pub fn c14_case(ms: &[Member], l: &mut Local) {
    l.evals += 1;
    l.states += 1;
    l.sample(|| format!("{:?}", ms));
    let show = || {
        let s = format!("{:?}", ms);
        if s.len() > 800 {
            format!("{}...", &s[..800])
        } else {
            s
        }
    };
    // members on their own
    let mut alone: Vec<Result<Vec<u8>, WErr>> = Vec::new();
    for m in ms {
        l.transitions += 2;
        alone.push(member_alone(m));
    }
    let broken = members_broken(ms);
    // the compound
    let cb = build::compound_builder(ms);
    l.transitions += 1;
    let size = cb.calculate_size().map_err(build::werr);
    l.validated += 1;
    match repr::judge(&broken, &size) {
        repr::Verdict::Ok => {}
        repr::Verdict::WronglyAccepted(rule) => {
            l.violation(format!("compound-accepted-despite:{}", rule), show, || format!("calculate_size() = {:?}", size));
            return;
        }
        repr::Verdict::WronglyRejected => {
            l.violation("valid-compound-rejected", show, || format!("calculate_size() = {:?}", size));
            return;
        }
        repr::Verdict::WrongError(m) => {
            l.violation("compound-error-names-no-violated-rule", show, || m.clone());
            return;
        }
    }
    // the same list added to a compound builder that is queried (size + scratch write) after every add_packet:
    // what was asked earlier must not change the answer for the finished list
    // ... nor may it matter where the queries fell: after every add_packet, after all but the last one of each
    // (nested) builder, only at the beginning
    for mode in [1u8, 2, 3] {
        l.transitions += 1;
        let probed = build::compound_builder_pm(ms, mode);
        let size_p = probed.calculate_size().map_err(build::werr);
        if size_p != size {
            l.violation("compound-size-depends-on-earlier-queries", show, || format!("calculate_size() = {:?}, but {:?} when the builder was queried {}", size, size_p, ["", "after every add_packet", "after every add_packet but the last of each builder", "only before and after its first add_packet"][mode as usize]));
            return;
        }
        if let Ok(n) = size_p {
            if n <= 4096 {
                let mut b1 = crate::engine::place::OutBuf::new(n, |_| 0xA5);
                let mut b2 = crate::engine::place::OutBuf::new(n, |_| 0xA5);
                let w1 = build::DynW(&probed).write_into(&mut b1).map_err(build::werr);
                let w2 = build::DynW(&cb).write_into(&mut b2).map_err(build::werr);
                if w1 != w2 || (!has_fir(ms) && b1[..] != b2[..]) {
                    l.violation("compound-bytes-depend-on-earlier-queries", show, || format!("write_into = {:?} / {:?}, bytes equal: {}", w1, w2, b1[..] == b2[..]));
                    return;
                }
            }
        }
    }
    let n = match size {
        Err(_) => {
            l.hit("rejected (a member invalid or padding before the end)");
            return;
        }
        Ok(n) => n,
    };
    l.hit("accepted");
    let mut concat: Vec<u8> = Vec::new();
    for a in &alone {
        match a {
            Ok(b) => concat.extend_from_slice(b),
            Err(e) => {
                l.violation("compound-accepted-with-member-that-fails-alone", show, || format!("{:?}", e));
                return;
            }
        }
    }
    if n != concat.len() {
        l.violation("compound-size-is-not-sum-of-members", show, || format!("calculate_size() = {}, members sum to {}", n, concat.len()));
        return;
    }
    let mut buf = crate::engine::place::OutBuf::new(n, |_| 0xA5);
    l.transitions += 1;
    let w = build::DynW(&cb).write_into(&mut buf).map_err(build::werr);
    if w != Ok(n) {
        l.violation("compound-write-differs-from-announced", show, || format!("announced {}, write_into = {:?}", n, w));
        return;
    }
    let mut buf = buf.into_vec();
    // the public unchecked writer with room to spare: a compound has no length field of its own, so the spare bytes
    // change nothing - the same n bytes, nothing beyond them
    {
        let mut big = crate::engine::place::OutBuf::new(n + 12, |_| 0xA5);
        l.transitions += 1;
        let m = cb.write_into_unchecked(&mut big);
        let mut head = big[..n].to_vec();
        let mut exact = buf.clone();
        canon_fir(&mut head);
        canon_fir(&mut exact);
        if m != n || head != exact || big[n..].iter().any(|&x| x != 0xA5) {
            let first = head.iter().zip(exact.iter()).position(|(a, b)| a != b);
            l.violation("compound-unchecked-write-differs-with-a-larger-buffer", show, || format!("write_into_unchecked into {} bytes returns {} (announced {}), first differing byte {:?}, spare bytes touched: {}", n + 12, m, n, first, big[n..].iter().any(|&x| x != 0xA5)));
            return;
        }
    }
    l.nontrivial(fp_bytes(&buf));
    // FirBuilder's HashMap order is the one uncontrolled choice in the subject and differs between
    // the instance inside the compound and the instance built alone: canonicalise it away
    canon_fir(&mut buf);
    canon_fir(&mut concat);
    if buf != concat {
        let first = buf.iter().zip(concat.iter()).position(|(a, b)| a != b).unwrap_or(0);
        l.violation("compound-bytes-are-not-concatenation", show, || format!("first difference at byte {}: compound {} members {}", first, hex_short(&buf), hex_short(&concat)));
        return;
    }
    // parse back: one packet per leaf, each equal to the leaf parsed on its own
    let lv = leaves(ms);
    if lv.is_empty() {
        l.hit("no leaves (nothing to parse back)");
        return;
    }
    // leaf images: sizes from the leaves built alone, bytes taken from the (already verified equal)
    // concatenation, so that a FIR member's HashMap order is the same on both sides
    let mut leaf_imgs = Vec::new();
    let mut off = 0usize;
    for m in &lv {
        match member_alone(m) {
            Ok(b) => {
                if off + b.len() > buf.len() {
                    return;
                }
                leaf_imgs.push(buf[off..off + b.len()].to_vec());
                off += b.len();
            }
            Err(_) => return,
        }
    }
    l.transitions += 1;
    let mut c = match Compound::parse(&buf) {
        Ok(c) => c,
        Err(e) => {
            l.violation("built-compound-rejected-by-Compound::parse", show, || format!("{:?} for {}", e, hex_short(&buf)));
            return;
        }
    };
    for (i, img) in leaf_imgs.iter().enumerate() {
        l.transitions += 2;
        let got = c.next();
        let want = Packet::parse(img);
        l.validated += 1;
        let same = match &got {
            Some(g) => packet_results_equal(g, &want),
            None => false,
        };
        if !same {
            l.violation("parsed-member-differs-from-member-parsed-alone", show, || format!("member {}: compound yields {:?}, alone {:?}", i, got, want));
            return;
        }
        if want.is_err() {
            // e.g. an Unknown-builder packet carrying a known type number: iteration stops here by C11
            l.hit("parse-back stops at a member that does not parse alone");
            return;
        }
    }
    l.transitions += 1;
    if let Some(extra) = c.next() {
        l.violation("compound-yields-more-than-members", show, || format!("{:?}", extra));
        return;
    }
    // "one packet per member, in order" however the iteration is driven: next / nth / take-count histories
    // (call sequences up to length 3 on compounds of up to 3 leaves, up to length 2 on larger ones)
    if buf.len() <= 512 && lv.len() <= 6 {
        super::common::all_iterator_histories(l, &buf, if lv.len() <= 3 { 3 } else { 2 });
    }
    l.hit("parsed back to its members");
}

pub fn c14(ctx: &mut Ctx) {
    ctx.rule = "all member lists of length 0..=d over a 27-kind menu (the 8 builder types unpadded, 5 padded, one invalid, PacketBuilder-wrapped ones incl. a padded one of every packet type, a third-party writer, nested compounds incl. empty and last-padded), and all ordered pairs of base-set packets; per list: calculate_size is Ok iff every member is valid and only the last requests padding (reference predicate), size = sum of the members' own sizes, bytes = concatenation of the members' own images, Compound::parse + iteration yields one packet per leaf equal to the leaf parsed alone; non-trivial = the compound was accepted and written, distinct by fingerprint of its bytes".into();
    let depth = ctx.tier.pick(4u32, 5u32);
    ctx.bound("member lists", format!("length 0..={} over 27 kinds", depth));
    ctx.bound("pairs", "all ordered pairs of the base set W (~190^2)");
    let sp = targets::compound_space(depth);
    let get = &sp.get;
    ctx.run_space(&sp.name, sp.len, |idx, l| {
        if let Target::Compound(ms) = get(idx) {
            match guard::catch(|| c14_case(&ms, l)) {
                Ok(()) => {}
                Err(pi) => l.subject_panic("compound", &pi, || format!("{:?}", ms)),
            }
        }
    });
    let w = super::gens::base_set();
    let nw = w.len() as u64;
    ctx.run_space("compound-pairs-of-base-set", nw * nw, |idx, l| {
        let a = w[(idx / nw) as usize].clone();
        let b = w[(idx % nw) as usize].clone();
        let ms = vec![if idx % 3 == 0 { Member::Wrapped(a) } else { Member::Plain(a) }, Member::Plain(b)];
        match guard::catch(|| c14_case(&ms, l)) {
            Ok(()) => {}
            Err(pi) => l.subject_panic("compound", &pi, || format!("{:?}", ms)),
        }
    });
    // many members of mixed sizes (5..100), the last optionally padded, a third-party "Some(0)" member inside a nested
    // compound in a non-last position
    {
        let sp = targets::many_member_space();
        let get = &sp.get;
        ctx.bound("many members", "lists of {5,7,8,9,15..18,31..34,63,64,65,100} members of mixed sizes in two size patterns; last member padded or not; a nested [third-party Some(0) member, padded BYE] in the middle");
        ctx.run_space(&sp.name, sp.len, |idx, l| {
            if let Target::Compound(ms) = get(idx) {
                match guard::catch(|| c14_case(&ms, l)) {
                    Ok(()) => {}
                    Err(pi) => l.subject_panic("compound", &pi, || format!("{} members", ms.len())),
                }
            }
        });
    }
    // every member count
    {
        let max = ctx.tier.pick(1200usize, 4096);
        let sp = targets::every_member_count_space(max);
        let get = &sp.get;
        ctx.bound("every member count", format!("compounds of every member count 1..={}: flat, flat with the last member padded, nested and followed by a BYE", max));
        ctx.run_space(&sp.name, sp.len, |idx, l| {
            if let Target::Compound(ms) = get(idx) {
                match guard::catch(|| c14_case(&ms, l)) {
                    Ok(()) => {}
                    Err(pi) => l.subject_panic("compound", &pi, || format!("{} members", ms.len())),
                }
            }
        });
    }
    // every total size
    {
        let max = ctx.tier.pick(2304usize, 8192);
        let sp = targets::every_total_size_space(max);
        let get = &sp.get;
        ctx.bound("every total size", format!("compounds of three unremarkable members whose sizes sum to every total 28..={} bytes, flat and with two of them nested", max * 4));
        ctx.run_space(&sp.name, sp.len, |idx, l| {
            if let Target::Compound(ms) = get(idx) {
                match guard::catch(|| c14_case(&ms, l)) {
                    Ok(()) => {}
                    Err(pi) => l.subject_panic("compound", &pi, || format!("{} members", ms.len())),
                }
            }
        });
    }
    // members at the size limits: the largest expressible packet (length field 0xFFFF, 262 144 bytes), one word
    // below it, and the two sizes around 65 536 bytes (where a 16-bit byte count wraps), mixed with small members
    let big = |pt: u8, total: usize, fill: u8| Pkt::Unknown { pt, count: 1, data: (0..total - 4).map(|i| fill.wrapping_add((i / 4) as u8)).collect(), pad: 0 };
    let menu: Vec<Member> = vec![
        Member::Plain(big(210, 262_144, 0x11)),
        Member::Plain(big(211, 262_140, 0x22)),
        Member::Plain(Pkt::App { ssrc: 0x0A0B0C0D, subtype: 3, name: "big!".into(), data: vec![0x5A; 65_536 - 12], pad: 0 }),
        Member::Wrapped(Pkt::App { ssrc: 0x0A0B0C0D, subtype: 4, name: "big".into(), data: vec![0x5B; 65_532 - 12], pad: 0 }),
        Member::Plain(Pkt::Bye { ssrcs: vec![1, 2], reason: String::new(), pad: 0 }),
        Member::Plain(Pkt::Rr { ssrc: 7, blocks: vec![], pad: 8 }),
        Member::Nested(vec![Member::Plain(big(212, 262_144, 0x33)), Member::Plain(Pkt::Bye { ssrcs: vec![3], reason: "x".into(), pad: 0 })]),
    ];
    let k = menu.len() as u64;
    ctx.bound("large members", "lists of length 1..=3 over {262144-byte, 262140-byte, 65536-byte, 65532-byte, two small members, a nested compound holding a 262144-byte member}");
    ctx.run_space("compound-lists-with-large-members", k + k * k + k * k * k, |idx, l| {
        let (len, mut r) = if idx < k { (1, idx) } else if idx < k + k * k { (2, idx - k) } else { (3, idx - k - k * k) };
        let mut ms = Vec::new();
        for _ in 0..len {
            ms.push(menu[(r % k) as usize].clone());
            r /= k;
        }
        match guard::catch(|| c14_case(&ms, l)) {
            Ok(()) => {}
            Err(pi) => l.subject_panic("compound", &pi, || format!("{} large-member list", ms.len())),
        }
    });
    // third-party writers whose images are not whole packets (1..=8 bytes, e.g. a header writer and a body writer
    // that produce one packet between them): "size = sum of the members' sizes, bytes = the members' images
    // concatenated" says nothing about alignment. A builder that refuses such a list is not judged (three-valued);
    // one that accepts it must write exactly the concatenation.
    {
        let frags: Vec<Vec<u8>> = vec![
            vec![0xAA],
            vec![0x80, 0xF2],
            vec![0x00, 0x01, 0x5A],
            vec![0x80, 0xF2, 0x00, 0x01, 0x5A, 0x5A],
            vec![0x80, 0xF2, 0x00, 0x01, 0x5A, 0x5A, 0x5A],
            vec![0x5A, 0x5A],
            vec![0x80, 0xF2, 0x00, 0x01, 1, 2, 3, 4],
            vec![0x80, 203, 0, 0],
        ];
        // kinds 0..=7: fragments; 8: the crate's own BYE builder; 9: nested compound [7-byte fragment, 1-byte fragment]
        const FK: u64 = 10;
        let fd = 4u32;
        ctx.bound("fragment writers", "lists of length 1..=4 over {third-party writers of 1,2,3,6,7,2,8,4 bytes, a BYE builder, a nested compound of a 7-byte and a 1-byte writer}");
        let nseq = seq_count(FK, fd);
        ctx.run_space("compound-lists-of-fragment-writers", nseq, |idx, l| {
            let seq = seq_decode(FK, idx);
            l.evals += 1;
            l.states += 1;
            l.sample(|| format!("fragment list {:?}", seq));
            let show = || format!("member kinds {:?} (0..=7: third-party writers of 1,2,3,6,7,2,8,4 bytes; 8: BYE builder; 9: nested [7-byte, 1-byte])", seq);
            let mut cb = Compound::builder();
            let mut concat: Vec<u8> = Vec::new();
            for k in &seq {
                match *k {
                    8 => {
                        cb = cb.add_packet(Bye::builder().add_source(0x0102_0304));
                        concat.extend_from_slice(&[0x81, 203, 0, 1, 1, 2, 3, 4]);
                    }
                    9 => {
                        cb = cb.add_packet(Compound::builder().add_packet(FragWriter(frags[4].clone())).add_packet(FragWriter(frags[0].clone())));
                        concat.extend_from_slice(&frags[4]);
                        concat.extend_from_slice(&frags[0]);
                    }
                    k => {
                        cb = cb.add_packet(FragWriter(frags[k as usize].clone()));
                        concat.extend_from_slice(&frags[k as usize]);
                    }
                }
            }
            l.transitions += 3;
            let r = guard::catch(|| {
                let size = cb.calculate_size();
                let n = match size {
                    Ok(n) => n,
                    Err(e) => return Err(format!("{:?}", e)),
                };
                let mut exact = vec![0xEEu8; n];
                let w1 = cb.write_into(&mut exact);
                let mut roomy = vec![0xEEu8; n + 9];
                let w2 = cb.write_into(&mut roomy);
                Ok((n, w1.map_err(|e| format!("{:?}", e)), exact, w2.map_err(|e| format!("{:?}", e)), roomy))
            });
            l.validated += 1;
            match r {
                Err(pi) => l.subject_panic("compound-of-fragment-writers", &pi, show),
                Ok(Err(_)) => l.hit("fragment list refused (not judged)"),
                Ok(Ok((n, w1, exact, w2, roomy))) => {
                    l.nontrivial(crate::engine::run::fp_combine(fp_bytes(&concat), 0xF4A6));
                    if n != concat.len() {
                        l.violation("fragments:size-is-not-the-sum", show, || format!("calculate_size() = {}, the members' sizes add up to {}", n, concat.len()));
                    } else if w1 != Ok(n) || exact != concat {
                        l.violation("fragments:bytes-are-not-the-concatenation", show, || format!("write_into(exact buffer) = {:?}, wrote {}, the members' images concatenated are {}", w1, hex_short(&exact), hex_short(&concat)));
                    } else if w2 != Ok(n) || roomy[..n] != concat[..] || roomy[n..].iter().any(|b| *b != 0xEE) {
                        l.violation("fragments:roomy-buffer-differs", show, || format!("write_into(buffer of {} bytes) = {:?}, wrote {}", n + 9, w2, hex_short(&roomy)));
                    } else {
                        l.hit("fragment list written as the concatenation");
                    }
                }
            }
        });
        ctx.require_hit("fragment list written as the concatenation");
    }
    ctx.require_hit("accepted");
    ctx.require_hit("rejected (a member invalid or padding before the end)");
    ctx.require_hit("parsed back to its members");
}

/// A third-party writer of a constant byte string of any length (not necessarily a whole packet).
#[derive(Debug)]
struct FragWriter(Vec<u8>);
impl RtcpPacketWriter for FragWriter {
    fn calculate_size(&self) -> Result<usize, RtcpWriteError> {
        Ok(self.0.len())
    }
    fn write_into_unchecked(&self, buf: &mut [u8]) -> usize {
        buf[..self.0.len()].copy_from_slice(&self.0);
        self.0.len()
    }
    fn get_padding(&self) -> Option<u8> {
        None
    }
}
