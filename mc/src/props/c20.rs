//! C20: builder output depends on what was configured, not on how. History trees (no merging):
//! every sequence of builder calls up to a depth over a small call alphabet is applied to the real
//! builder and to a trivial model (last setter wins, adds append, NACK is a set, FIR last wins); the
//! real bytes must equal the bytes of the canonical construction of the model state, in every
//! wrapper flavour.

use crate::engine::guard;
use crate::engine::json::hex_short;
use super::gens;
use crate::engine::run::{fp_debug, Ctx, Local, Tier};
use crate::engine::space::*;
use crate::refmodel::model::*;
use crate::refmodel::repr::WErr;
use crate::subject::build::{self, DynW, Variant, Wrap};
use rtcp_types::prelude::*;
use rtcp_types::*;

thread_local! {
    /// when set, every builder call of a replayed history is followed by a query of the intermediate builder
    static HIST_PROBE: std::cell::Cell<bool> = std::cell::Cell::new(false);
}
fn probing() -> bool {
    HIST_PROBE.with(|c| c.get())
}
#[inline]
fn hp<W: RtcpPacketWriter>(w: W) -> W {
    build::pr(w, probing())
}
#[inline]
fn hpi<'a>(w: SdesItemBuilder<'a>) -> SdesItemBuilder<'a> {
    build::pr_item(w, probing())
}

fn bytes_of(w: &dyn RtcpPacketWriter) -> Result<Vec<u8>, WErr> {
    let n = w.calculate_size().map_err(build::werr)?;
    let mut buf = crate::engine::place::OutBuf::new(n, |_| 0xA5);
    let m = DynW(w).write_into(&mut buf).map_err(build::werr)?;
    let mut buf = buf.into_vec();
    buf.truncate(m);
    Ok(buf)
}

/// Besides its bytes, what a writer tells a compound: its `get_padding()` and whether a compound accepts it in a
/// non-last position (`add_packet(this).add_packet(BYE)`). Wrappers and owned variants must agree on these too.
fn side_answers(w: &dyn RtcpPacketWriter) -> (Option<u8>, Result<usize, WErr>) {
    let pad = w.get_padding();
    let nonlast = Compound::builder().add_packet(DynW(w)).add_packet(Bye::builder().add_source(1)).calculate_size().map_err(build::werr);
    (pad, nonlast)
}

fn canonical(model: &Pkt) -> Result<Vec<u8>, WErr> {
    let mut out = Err(WErr::Other("not built".into()));
    build::with_writer(model, Variant::PLAIN, &mut |w| out = bytes_of(w));
    out
}

/// FIR entries may come out in any order
fn canon_fir(model: &Pkt, mut b: Vec<u8>) -> Vec<u8> {
    if let Pkt::Fb { fci: Fci::Fir(_), pad, .. } = model {
        let end = b.len().saturating_sub(*pad as usize);
        if end >= 12 && (end - 12) % 8 == 0 {
            let mut e: Vec<[u8; 8]> = b[12..end].chunks_exact(8).map(|c| c.try_into().unwrap()).collect();
            e.sort();
            for (i, x) in e.iter().enumerate() {
                b[12 + 8 * i..20 + 8 * i].copy_from_slice(x);
            }
        }
    }
    b
}

/// "What was configured" is the model state: the canonical construction must itself say exactly that (every added
/// block / source / chunk / entry present once and in order, the last value of every setter), or a builder that
/// drops or merges something would agree with itself in every history. NACK: the decoded set; everything else: the
/// reference encoder's image (FIR up to entry order).
fn canonical_says_the_configuration(model: &Pkt, canonical: &[u8]) -> bool {
    if !crate::refmodel::repr::representable(model) {
        return true;
    }
    match model {
        Pkt::Fb { fci: Fci::Nack(set), pad, .. } => {
            let end = canonical.len().saturating_sub(*pad as usize);
            if end < 12 {
                return false;
            }
            let mut got = crate::refmodel::read::nack_unpack(&canonical[12..end]);
            let mut want = set.clone();
            got.sort_unstable();
            want.sort_unstable();
            want.dedup();
            got == want
        }
        _ => canon_fir(model, crate::refmodel::wire::encode(model)) == canonical,
    }
}

fn judge(l: &mut Local, family: &str, hist: &dyn Fn() -> String, model: &Pkt, wrap: Wrap, got: Result<Vec<u8>, WErr>) {
    l.validated += 1;
    let want = canonical(model).map(|b| canon_fir(model, b));
    if let Ok(w) = &want {
        if wrap == Wrap::None && !canonical_says_the_configuration(model, w) {
            l.violation(
                format!("canonical-construction-is-not-the-configuration:{}", family),
                || format!("{} [canonical]", hist()),
                || format!("final configuration {} is built as {} but the configuration reads {}", model.short(), hex_short(w), hex_short(&crate::refmodel::wire::encode(model))),
            );
            return;
        }
    }
    let got = got.map(|b| canon_fir(model, b));
    if got == want {
        l.hit("history agrees with canonical construction");
    } else {
        let what = match (&got, &want) {
            (Ok(a), Ok(b)) if a.len() != b.len() => "size",
            (Ok(_), Ok(_)) => "bytes",
            _ => "outcome",
        };
        l.violation(
            format!("history-dependent-{}:{}{}", what, family, if wrap == Wrap::None { "" } else { ":wrapped" }),
            || format!("{} [{:?}]", hist(), wrap),
            || {
                format!(
                    "final configuration {} -> canonical {} but this history gives {}",
                    model.short(),
                    want.as_ref().map(|b| hex_short(b)).unwrap_or_else(|e| format!("{:?}", e)),
                    got.as_ref().map(|b| hex_short(b)).unwrap_or_else(|e| format!("{:?}", e))
                )
            },
        );
    }
}

/// Run `mk` (which replays the call history on a fresh builder) once per wrapper flavour.
fn all_wraps<'a, W>(l: &mut Local, family: &str, hist: &dyn Fn() -> String, model: &Pkt, mk: &dyn Fn() -> W)
where
    W: RtcpPacketWriter + 'a,
    PacketBuilder<'a>: From<W>,
{
    l.evals += 1;
    l.states += 1;
    l.sample(|| format!("{}: {}", family, hist()));
    l.nontrivial(fp_debug(model));
    // the four wrapper flavours plainly, then the bare builder and the one-member compound once more with every
    // call of the history followed by a query of the intermediate builder (calculate_size + scratch write)
    for (wrap, probe) in [(Wrap::None, false), (Wrap::Packet, false), (Wrap::Compound1, false), (Wrap::CompoundPacket, false), (Wrap::None, true), (Wrap::Compound1, true)] {
        l.transitions += 1;
        HIST_PROBE.with(|c| c.set(probe));
        let r = guard::catch(|| match wrap {
            Wrap::None => bytes_of(&mk()),
            Wrap::Packet => bytes_of(&PacketBuilder::from(mk())),
            Wrap::Compound1 => bytes_of(&Compound::builder().add_packet(mk())),
            Wrap::CompoundPacket => bytes_of(&Compound::builder().add_packet(PacketBuilder::from(mk()))),
        });
        HIST_PROBE.with(|c| c.set(false));
        match r {
            Err(pi) => l.subject_panic(&format!("history:{}{}", family, if probe { ":probed" } else { "" }), &pi, || hist()),
            Ok(got) => judge(l, family, &|| format!("{}{}", hist(), if probe { " (builder queried after every call)" } else { "" }), model, wrap, got),
        }
    }
}

// ---------------------------------------------------------------------------------------------

const BYE_OPS: u64 = 9;
fn bye_history(seq: &[u64]) -> (ByeBuilder<'static>, Pkt, String) {
    let mut b = hp(Bye::builder());
    let (mut pad, mut ssrcs, mut reason) = (0u8, Vec::new(), String::new());
    let mut d = String::from("Bye::builder()");
    for &op in seq {
        match op {
            0 | 1 => {
                let p = if op == 0 { 0 } else { 4 };
                b = hp(b.padding(p));
                pad = p;
                d += &format!(".padding({})", p);
            }
            2 | 3 => {
                let s = if op == 2 { 0x11 } else { 0x2200_0000 };
                b = hp(b.add_source(s));
                ssrcs.push(s);
                d += &format!(".add_source({:#x})", s);
            }
            4 | 5 | 8 => {
                let r = match op {
                    4 => "x",
                    5 => "hello",
                    _ => "",
                };
                b = hp(b.reason(r));
                reason = r.to_string();
                d += &format!(".reason({:?})", r);
            }
            _ => {
                let r = if op == 6 { "yz" } else { "" };
                b = hp(b.reason_owned(r));
                reason = r.to_string();
                d += &format!(".reason_owned({:?})", r);
            }
        }
    }
    (b, Pkt::Bye { ssrcs, reason, pad }, d)
}

const ITEM_OPS: u64 = 4;
/// item histories: start from builder(ty, value), then prefix(..) / into_owned in any order
fn item_history(ty: u8, seq: &[u64]) -> (SdesItemBuilder<'static>, Item, String) {
    let value = if ty == 8 { "pv" } else { "cname" };
    let mut b = SdesItem::builder(ty, value);
    let mut m = Item { ty, prefix: Vec::new(), value: value.as_bytes().to_vec() };
    let mut d = format!("SdesItem::builder({}, {:?})", ty, value);
    for &op in seq {
        match op {
            0 | 1 | 2 => {
                let p: &'static [u8] = match op {
                    0 => b"a",
                    1 => b"bcd",
                    _ => b"",
                };
                b = hpi(b.prefix(p));
                m.prefix = p.to_vec();
                d += &format!(".prefix({:?})", p);
            }
            _ => {
                b = hpi(b.into_owned());
                d += ".into_owned()";
            }
        }
    }
    (b, m, d)
}

const RPSI_OPS: u64 = 6;
fn rpsi_history(seq: &[u64]) -> (RpsiBuilder<'static>, Fci, String) {
    static D1: [u8; 1] = [0xF0];
    static D2: [u8; 3] = [1, 2, 0xFF];
    static D3: [u8; 2] = [0xAB, 0xCD];
    let mut b = hp(Rpsi::builder());
    let (mut pt, mut data, mut over): (u8, Vec<u8>, u8) = (0, Vec::new(), 0);
    let mut d = String::from("Rpsi::builder()");
    for &op in seq {
        match op {
            0 | 1 => {
                let p = if op == 0 { 5 } else { 96 };
                b = hp(b.payload_type(p));
                pt = p;
                d += &format!(".payload_type({})", p);
            }
            2 | 3 => {
                let (x, o): (&'static [u8], u8) = if op == 2 { (&D1, 0) } else { (&D2, 3) };
                b = hp(b.native_data(x, o));
                data = x.to_vec();
                over = o;
                d += &format!(".native_data({:?}, {})", x, o);
            }
            _ => {
                let (x, o): (&'static [u8], u8) = if op == 4 { (&D1, 0) } else { (&D3, 8) };
                b = hp(b.native_data_owned(x, o));
                data = x.to_vec();
                over = o;
                d += &format!(".native_data_owned({:?}, {})", x, o);
            }
        }
    }
    (b, Fci::Rpsi { pt, data, overrun: over }, d)
}

fn fb_setter_history(seq: &[u64]) -> (u32, u32, u8, String) {
    let (mut s, mut m, mut p) = (0u32, 0u32, 0u8);
    let mut d = String::new();
    for &op in seq {
        match op {
            0 | 1 => {
                s = if op == 0 { 0x0A0A_0A0A } else { 0xB0B0_B0B0 };
                d += &format!(".sender_ssrc({:#x})", s);
            }
            2 | 3 => {
                m = if op == 2 { 0x0C0C_0C0C } else { 0xD0D0_D0D0 };
                d += &format!(".media_ssrc({:#x})", m);
            }
            _ => {
                p = if op == 4 { 0 } else { 4 };
                d += &format!(".padding({})", p);
            }
        }
    }
    (s, m, p, d)
}

macro_rules! apply_fb_setters {
    ($b:expr, $seq:expr) => {{
        let mut b = $b;
        for &op in $seq {
            b = hp(match op {
                0 => b.sender_ssrc(0x0A0A_0A0A),
                1 => b.sender_ssrc(0xB0B0_B0B0),
                2 => b.media_ssrc(0x0C0C_0C0C),
                3 => b.media_ssrc(0xD0D0_D0D0),
                4 => b.padding(0),
                _ => b.padding(4),
            });
        }
        b
    }};
}

fn sample_fci(k: u64) -> Fci {
    match k {
        0 => Fci::Nack(vec![5, 6, 40]),
        1 => Fci::Pli,
        2 => Fci::Sli(vec![(1, 2, 3)]),
        3 => Fci::Rpsi { pt: 96, data: vec![0xF0], overrun: 4 },
        _ => Fci::Fir(vec![(7, 1), (9, 2)]),
    }
}

pub fn c20(ctx: &mut Ctx) {
    ctx.rule = "history trees without merging: every sequence of builder calls up to depth d over a small call alphabet (2-3 legal argument values per call) is replayed on a fresh real builder and on a trivial model; the bytes (and size, and error if any) must equal those of the canonical construction of the model's final state, for the bare builder, PacketBuilder::from, a one-member compound and a compound of the PacketBuilder; FIR compared up to entry order; plus flavour equivalence over whole configuration spaces: every configuration of the round-trip generators is realised in all API flavours (owned/borrowed x 4 wrappers x with/without the intermediate builder being queried after every call) and each must give the bytes or the error of the plain flavour; states = histories and configurations, distinct_nontrivial = distinct final configurations (fingerprint of the model state)".into();
    let t = ctx.tier;
    let d_bye = t.pick(6u32, 7u32);
    ctx.bound("ByeBuilder", format!("{{padding x2, add_source x2, reason x3, reason_owned x2}} depth {}", d_bye));
    ctx.bound("SdesItemBuilder / SdesChunkBuilder / SdesBuilder", "item {prefix x3, into_owned} depth 3 x 2 types, placed by add_item and add_item_owned; chunk {add_item, add_item_owned} x 2 items depth 3; sdes {padding x2, add_chunk x2} depth 4");
    ctx.bound("RpsiBuilder", format!("{{payload_type x2, native_data x2, native_data_owned x2}} depth {}", t.pick(5, 6)));
    ctx.bound("feedback builders", "{sender_ssrc x2, media_ssrc x2, padding x2} depth 4 x {builder, builder_owned} x 5 FCI types");
    ctx.bound("AppBuilder / UnknownBuilder / SenderReportBuilder / ReceiverReportBuilder / ReportBlockBuilder", format!("setters x2 values, adders x2, depth {}", t.pick(5, 6)));
    ctx.bound("NackBuilder / FirBuilder", format!("add sequences of length <= 5 over {{5,6,22,23}} and <= {} over {{0,1,17,0x7FFF,0x8000,0x8001,0xFFFE,0xFFFF}} / <= 4 over {{(a,1),(a,2),(b,1),(a,255),(a,0)}}", t.pick(4, 5)));
    ctx.bound("flavour equivalence", t.pick("all configurations of the RPSI, BYE, APP, SDES, FIR, SLI, PLI and NACK (18-value windows) generators x 23 flavours", "the same with the thorough generators, plus the SR/RR generator"));
    ctx.assume("call histories deeper than the stated depths, and argument values outside the 2-3 per call, are not explored");

    // BYE
    ctx.run_space("bye-histories", seq_count(BYE_OPS, d_bye), |idx, l| {
        let seq = seq_decode(BYE_OPS, idx);
        let (_, model, d) = bye_history(&seq);
        all_wraps(l, "ByeBuilder", &|| d.clone(), &model, &|| bye_history(&seq).0);
    });

    // SDES items: alone (through a one-item chunk in a one-chunk SDES), added by value and by the owning adder
    ctx.run_space("sdes-item-histories", seq_count(ITEM_OPS, 3) * 2 * 2, |idx, l| {
        let owned_add = idx % 2 == 1;
        let ty = if (idx / 2) % 2 == 0 { 8 } else { 1 };
        let seq = seq_decode(ITEM_OPS, idx / 4);
        let (_, item, d) = item_history(ty, &seq);
        let model = Pkt::Sdes { chunks: vec![Chunk { ssrc: 0x0102_0304, items: vec![item] }], pad: 0 };
        let d2 = format!("Sdes::builder().add_chunk(SdesChunk::builder(..).{}({}))", if owned_add { "add_item_owned" } else { "add_item" }, d);
        all_wraps(l, "SdesItemBuilder", &|| d2.clone(), &model, &|| {
            let it = item_history(ty, &seq).0;
            let c = SdesChunk::builder(0x0102_0304);
            let c = if owned_add { c.add_item_owned(it) } else { c.add_item(it) };
            Sdes::builder().add_chunk(c)
        });
    });
    // SDES chunks: add_item / add_item_owned x two items, depth 3
    ctx.run_space("sdes-chunk-histories", seq_count(4, 3), |idx, l| {
        let seq = seq_decode(4, idx);
        let mk_item = |k: u64| -> (SdesItemBuilder<'static>, Item) {
            if k == 0 {
                (SdesItem::builder(8, "v").prefix(&b"p"[..]), Item::priv_(b"p", b"v"))
            } else {
                (SdesItem::builder(1, "cn"), Item::new(1, b"cn"))
            }
        };
        let items: Vec<Item> = seq.iter().map(|&op| mk_item(op / 2).1).collect();
        let model = Pkt::Sdes { chunks: vec![Chunk { ssrc: 9, items }], pad: 4 };
        let d: String = seq.iter().map(|&op| format!(".{}(item{})", if op % 2 == 0 { "add_item" } else { "add_item_owned" }, op / 2)).collect();
        all_wraps(l, "SdesChunkBuilder", &|| format!("SdesChunk::builder(9){}", d), &model, &|| {
            let mut c = SdesChunk::builder(9);
            for &op in &seq {
                let it = mk_item(op / 2).0;
                c = if op % 2 == 0 { c.add_item(it) } else { c.add_item_owned(it) };
            }
            Sdes::builder().padding(4).add_chunk(c)
        });
    });
    // SDES packet: padding / add_chunk
    ctx.run_space("sdes-histories", seq_count(4, 4), |idx, l| {
        let seq = seq_decode(4, idx);
        let mk_chunk = |k: u64| -> (SdesChunkBuilder<'static>, Chunk) {
            if k == 0 {
                (SdesChunk::builder(0x0000_0100).add_item(SdesItem::builder(1, "a")), Chunk { ssrc: 0x0000_0100, items: vec![Item::new(1, b"a")] })
            } else {
                (SdesChunk::builder(0), Chunk { ssrc: 0, items: vec![] })
            }
        };
        let mut pad = 0u8;
        let mut chunks = Vec::new();
        let mut d = String::from("Sdes::builder()");
        for &op in &seq {
            match op {
                0 | 1 => {
                    pad = if op == 0 { 0 } else { 4 };
                    d += &format!(".padding({})", pad);
                }
                _ => {
                    chunks.push(mk_chunk(op - 2).1);
                    d += &format!(".add_chunk(chunk{})", op - 2);
                }
            }
        }
        let model = Pkt::Sdes { chunks, pad };
        all_wraps(l, "SdesBuilder", &|| d.clone(), &model, &|| {
            let mut b = Sdes::builder();
            for &op in &seq {
                b = hp(match op {
                    0 => b.padding(0),
                    1 => b.padding(4),
                    k => b.add_chunk(mk_chunk(k - 2).0),
                });
            }
            b
        });
    });

    // RPSI histories inside a payload feedback packet, borrowed and owned
    let d_rpsi = t.pick(5u32, 6u32);
    ctx.run_space("rpsi-histories", seq_count(RPSI_OPS, d_rpsi) * 2, |idx, l| {
        let owned = idx % 2 == 1;
        let seq = seq_decode(RPSI_OPS, idx / 2);
        let (_, fci, d) = rpsi_history(&seq);
        let model = Pkt::Fb { kind: Kind::Payload, sender: 1, media: 2, fci, pad: 0 };
        if owned {
            all_wraps(l, "RpsiBuilder", &|| format!("PayloadFeedback::builder_owned({})", d), &model, &|| PayloadFeedback::builder_owned(rpsi_history(&seq).0).sender_ssrc(1).media_ssrc(2));
        } else {
            let fb = rpsi_history(&seq).0;
            all_wraps(l, "RpsiBuilder", &|| format!("PayloadFeedback::builder(&{})", d), &model, &|| PayloadFeedback::builder(&fb).sender_ssrc(1).media_ssrc(2));
        }
    });

    // feedback packet setters in every order with repeats x builder flavour x FCI type
    ctx.run_space("feedback-setter-histories", seq_count(6, 4) * 2 * 5, |idx, l| {
        let owned = idx % 2 == 1;
        let k = (idx / 2) % 5;
        let seq = seq_decode(6, idx / 10);
        let (s, m, p, d) = fb_setter_history(&seq);
        let fci = sample_fci(k);
        let kind = fci.kind();
        let model = Pkt::Fb { kind, sender: s, media: m, fci: fci.clone(), pad: p };
        let name = if kind == Kind::Transport { "TransportFeedbackBuilder" } else { "PayloadFeedbackBuilder" };
        let hist = || format!("{}::{}({}){}", name, if owned { "builder_owned" } else { "builder" }, fci.name(), d);
        macro_rules! go {
            ($mkfci:expr) => {{
                if owned {
                    match kind {
                        Kind::Transport => all_wraps(l, name, &hist, &model, &|| apply_fb_setters!(TransportFeedback::builder_owned($mkfci), &seq)),
                        Kind::Payload => all_wraps(l, name, &hist, &model, &|| apply_fb_setters!(PayloadFeedback::builder_owned($mkfci), &seq)),
                    }
                } else {
                    let f = $mkfci;
                    match kind {
                        Kind::Transport => all_wraps(l, name, &hist, &model, &|| apply_fb_setters!(TransportFeedback::builder(&f), &seq)),
                        Kind::Payload => all_wraps(l, name, &hist, &model, &|| apply_fb_setters!(PayloadFeedback::builder(&f), &seq)),
                    }
                }
            }};
        }
        match &fci {
            Fci::Nack(v) => go!(build::nack_builder(v)),
            Fci::Pli => go!(Pli::builder()),
            Fci::Sli(v) => go!(build::sli_builder(v)),
            Fci::Rpsi { pt, data, overrun } => go!(build::rpsi_builder_owned(*pt, data, *overrun)),
            Fci::Fir(v) => go!(build::fir_builder(v)),
        }
    });

    // APP
    let d_set = t.pick(5u32, 6u32);
    static AD1: [u8; 4] = [1, 2, 3, 4];
    static AD2: [u8; 8] = [9, 8, 7, 6, 5, 4, 3, 2];
    ctx.run_space("app-histories", seq_count(6, d_set), |idx, l| {
        let seq = seq_decode(6, idx);
        let (mut pad, mut sub, mut data): (u8, u8, &'static [u8]) = (0, 0, &[]);
        let mut d = String::from("App::builder(7, \"nm\")");
        for &op in &seq {
            match op {
                0 | 1 => {
                    pad = if op == 0 { 0 } else { 4 };
                    d += &format!(".padding({})", pad);
                }
                2 | 3 => {
                    sub = if op == 2 { 1 } else { 30 };
                    d += &format!(".subtype({})", sub);
                }
                _ => {
                    data = if op == 4 { &AD1 } else { &AD2 };
                    d += &format!(".data({:?})", data);
                }
            }
        }
        let model = Pkt::App { ssrc: 7, subtype: sub, name: "nm".into(), data: data.to_vec(), pad };
        all_wraps(l, "AppBuilder", &|| d.clone(), &model, &|| {
            let mut b = App::builder(7, "nm");
            for &op in &seq {
                b = hp(match op {
                    0 => b.padding(0),
                    1 => b.padding(4),
                    2 => b.subtype(1),
                    3 => b.subtype(30),
                    4 => b.data(&AD1),
                    _ => b.data(&AD2),
                });
            }
            b
        });
    });
    // Unknown
    ctx.run_space("unknown-histories", seq_count(4, d_set + 1), |idx, l| {
        let seq = seq_decode(4, idx);
        let (mut pad, mut count) = (0u8, 0u8);
        let mut d = String::from("Unknown::builder(207, data)");
        for &op in &seq {
            match op {
                0 | 1 => {
                    pad = if op == 0 { 0 } else { 8 };
                    d += &format!(".padding({})", pad);
                }
                _ => {
                    count = if op == 2 { 1 } else { 31 };
                    d += &format!(".count({})", count);
                }
            }
        }
        let model = Pkt::Unknown { pt: 207, count, data: AD1.to_vec(), pad };
        all_wraps(l, "UnknownBuilder", &|| d.clone(), &model, &|| {
            let mut b = Unknown::builder(207, &AD1);
            for &op in &seq {
                b = hp(match op {
                    0 => b.padding(0),
                    1 => b.padding(8),
                    2 => b.count(1),
                    _ => b.count(31),
                });
            }
            b
        });
    });
    // SR
    let rbx = Rb { ssrc: 0x0101, fraction: 1, cum: 2, ext_seq: 3, jitter: 4, lsr: 5, dlsr: 6 };
    let rby = Rb { ssrc: 0xFFFF_FF00, fraction: 0xFF, cum: 0xFF_FFFF, ext_seq: 0x8000_0000, jitter: 0, lsr: 0xFFFF_FFFF, dlsr: 1 };
    ctx.run_space("sr-histories", seq_count(12, d_set), |idx, l| {
        let seq = seq_decode(12, idx);
        let (mut pad, mut ntp, mut rtp, mut pc, mut oc, mut blocks) = (0u8, 0u64, 0u32, 0u32, 0u32, Vec::new());
        let mut d = String::from("SenderReport::builder(0xFFFF_FF00)");
        for &op in &seq {
            let v = op % 2;
            match op / 2 {
                0 => {
                    pad = [0, 4][v as usize];
                    d += &format!(".padding({})", pad);
                }
                1 => {
                    ntp = [0x0102_0304_0506_0708, u64::MAX][v as usize];
                    d += &format!(".ntp_timestamp({:#x})", ntp);
                }
                2 => {
                    rtp = [0x1111_1111, 0xFF00_0000][v as usize];
                    d += &format!(".rtp_timestamp({:#x})", rtp);
                }
                3 => {
                    pc = [0x2222_2222, 0x0000_00FF][v as usize];
                    d += &format!(".packet_count({:#x})", pc);
                }
                4 => {
                    oc = [0x3333_3333, 0x00FF_0000][v as usize];
                    d += &format!(".octet_count({:#x})", oc);
                }
                _ => {
                    blocks.push(if v == 0 { rbx.clone() } else { rby.clone() });
                    d += &format!(".add_report_block({})", if v == 0 { "x" } else { "y" });
                }
            }
        }
        let model = Pkt::Sr { ssrc: 0xFFFF_FF00, ntp, rtp, pc, oc, blocks, pad };
        all_wraps(l, "SenderReportBuilder", &|| d.clone(), &model, &|| {
            let mut b = SenderReport::builder(0xFFFF_FF00);
            for &op in &seq {
                let v = (op % 2) as usize;
                b = hp(match op / 2 {
                    0 => b.padding([0, 4][v]),
                    1 => b.ntp_timestamp([0x0102_0304_0506_0708, u64::MAX][v]),
                    2 => b.rtp_timestamp([0x1111_1111, 0xFF00_0000][v]),
                    3 => b.packet_count([0x2222_2222, 0x0000_00FF][v]),
                    4 => b.octet_count([0x3333_3333, 0x00FF_0000][v]),
                    _ => b.add_report_block(build::rb_builder(if v == 0 { &rbx } else { &rby })),
                });
            }
            b
        });
    });
    // RR and ReportBlockBuilder setters
    ctx.run_space("rr-histories", seq_count(4, d_set + 1), |idx, l| {
        let seq = seq_decode(4, idx);
        let (mut pad, mut blocks) = (0u8, Vec::new());
        let mut d = String::from("ReceiverReport::builder(0x0101)");
        for &op in &seq {
            match op {
                0 | 1 => {
                    pad = if op == 0 { 0 } else { 12 };
                    d += &format!(".padding({})", pad);
                }
                _ => {
                    blocks.push(if op == 2 { rbx.clone() } else { rby.clone() });
                    d += &format!(".add_report_block({})", if op == 2 { "x" } else { "y" });
                }
            }
        }
        let model = Pkt::Rr { ssrc: 0x0101, blocks, pad };
        all_wraps(l, "ReceiverReportBuilder", &|| d.clone(), &model, &|| {
            let mut b = ReceiverReport::builder(0x0101);
            for &op in &seq {
                b = hp(match op {
                    0 => b.padding(0),
                    1 => b.padding(12),
                    2 => b.add_report_block(build::rb_builder(&rbx)),
                    _ => b.add_report_block(build::rb_builder(&rby)),
                });
            }
            b
        });
    });
    ctx.run_space("report-block-histories", seq_count(12, d_set), |idx, l| {
        let seq = seq_decode(12, idx);
        let mut m = Rb { ssrc: 0x77, ..Default::default() };
        let mut d = String::from("ReportBlock::builder(0x77)");
        let vals = |f: u64, v: usize| -> u32 { [[1u32, 0xFF][v], [2, 0xFF_FFFF][v], [3, 0xFFFF_FFFF][v], [4, 0x8000_0000][v], [5, 0x0000_FF00][v], [6, 0x00FF_0000][v]][f as usize] };
        for &op in &seq {
            let (f, v) = (op / 2, (op % 2) as usize);
            let x = vals(f, v);
            match f {
                0 => m.fraction = x as u8,
                1 => m.cum = x,
                2 => m.ext_seq = x,
                3 => m.jitter = x,
                4 => m.lsr = x,
                _ => m.dlsr = x,
            }
            d += &format!(".{}({:#x})", ["fraction_lost", "cumulative_lost", "extended_sequence_number", "interarrival_jitter", "last_sender_report_timestamp", "delay_since_last_sender_report_timestamp"][f as usize], x);
        }
        let model = Pkt::Rr { ssrc: 0x53, blocks: vec![m], pad: 0 };
        all_wraps(l, "ReportBlockBuilder", &|| d.clone(), &model, &|| {
            let mut rb = ReportBlock::builder(0x77);
            for &op in &seq {
                let (f, v) = (op / 2, (op % 2) as usize);
                let x = vals(f, v);
                rb = match f {
                    0 => rb.fraction_lost(x as u8),
                    1 => rb.cumulative_lost(x),
                    2 => rb.extended_sequence_number(x),
                    3 => rb.interarrival_jitter(x),
                    4 => rb.last_sender_report_timestamp(x),
                    _ => rb.delay_since_last_sender_report_timestamp(x),
                };
            }
            ReceiverReport::builder(0x53).add_report_block(rb)
        });
    });
    // NACK and FIR add sequences
    ctx.run_space("nack-add-histories", seq_count(4, 5) * 2, |idx, l| {
        let owned = idx % 2 == 1;
        let seq: Vec<u16> = seq_decode(4, idx / 2).iter().map(|&k| [5u16, 6, 22, 23][k as usize]).collect();
        let model = Pkt::Fb { kind: Kind::Transport, sender: 3, media: 4, fci: Fci::Nack(Fci::nack_set(&seq)), pad: 0 };
        let hist = || format!("Nack::builder(){}", seq.iter().map(|s| format!(".add_rtp_sequence({})", s)).collect::<String>());
        if owned {
            all_wraps(l, "NackBuilder", &hist, &model, &|| TransportFeedback::builder_owned(build::nack_builder_p(&seq, probing())).sender_ssrc(3).media_ssrc(4));
        } else {
            let f = build::nack_builder_p(&seq, probing());
            all_wraps(l, "NackBuilder", &hist, &model, &|| TransportFeedback::builder(&f).sender_ssrc(3).media_ssrc(4));
        }
    });
    // the same over values on both sides of the 16-bit wrap and of the signed midpoint: insertion order must not
    // matter even when "newer" in RTP serial arithmetic disagrees with numeric order
    let d_wrap = t.pick(5u32, 6u32);
    ctx.run_space("nack-add-histories-across-the-wrap", seq_count(8, d_wrap) * 2, |idx, l| {
        let owned = idx % 2 == 1;
        let seq: Vec<u16> = seq_decode(8, idx / 2).iter().map(|&k| [0u16, 1, 17, 0x7FFF, 0x8000, 0x8001, 0xFFFE, 0xFFFF][k as usize]).collect();
        let model = Pkt::Fb { kind: Kind::Transport, sender: 3, media: 4, fci: Fci::Nack(Fci::nack_set(&seq)), pad: 0 };
        let hist = || format!("Nack::builder(){}", seq.iter().map(|s| format!(".add_rtp_sequence({})", s)).collect::<String>());
        if owned {
            all_wraps(l, "NackBuilder", &hist, &model, &|| TransportFeedback::builder_owned(build::nack_builder_p(&seq, probing())).sender_ssrc(3).media_ssrc(4));
        } else {
            let f = build::nack_builder_p(&seq, probing());
            all_wraps(l, "NackBuilder", &hist, &model, &|| TransportFeedback::builder(&f).sender_ssrc(3).media_ssrc(4));
        }
    });
    ctx.run_space("fir-add-histories", seq_count(5, 4) * 2, |idx, l| {
        let owned = idx % 2 == 1;
        let seq: Vec<(u32, u8)> = seq_decode(5, idx / 2).iter().map(|&k| [(0xAAu32, 1u8), (0xAA, 2), (0xBB00_0000, 1), (0xAA, 255), (0xAA, 0)][k as usize]).collect();
        if seq.is_empty() {
            return; // the empty FIR list is C05's known finding, not a history question
        }
        // the model keeps the last sequence per SSRC; the canonical construction adds each SSRC once
        let canonical: Vec<(u32, u8)> = Fci::fir_map(&seq).into_iter().collect();
        let model = Pkt::Fb { kind: Kind::Payload, sender: 3, media: 4, fci: Fci::Fir(canonical), pad: 0 };
        let hist = || format!("Fir::builder(){}", seq.iter().map(|s| format!(".add_ssrc({:#x}, {})", s.0, s.1)).collect::<String>());
        if owned {
            all_wraps(l, "FirBuilder", &hist, &model, &|| PayloadFeedback::builder_owned(build::fir_builder_p(&seq, probing())).sender_ssrc(3).media_ssrc(4));
        } else {
            let f = build::fir_builder_p(&seq, probing());
            all_wraps(l, "FirBuilder", &hist, &model, &|| PayloadFeedback::builder(&f).sender_ssrc(3).media_ssrc(4));
        }
    });
    // long add-histories: n numbers added in ascending / descending / interleaved order, then one more add (below all,
    // in the middle, above all, or a repeat of the first / middle / last) - where a structure with a small-size fast
    // path or a bounded search window changes gear (n around 8, 16, 32, 64)
    {
        let counts: [usize; 12] = [7, 8, 9, 15, 16, 17, 31, 32, 33, 34, 65, 130];
        ctx.bound("long add-histories", "NackBuilder / FirBuilder: n in {7,8,9,15,16,17,31,32,33,34,65,130} adds in 3 orders, then one more add in 6 positions");
        ctx.run_space("long-add-histories", 12 * 3 * 6 * 2, |idx, l| {
            let n = counts[(idx % 12) as usize];
            let order = (idx / 12) % 3;
            let extra = (idx / 36) % 6;
            let fir = idx / 216 == 1;
            let step: u32 = if fir { 0x0001_0001 } else { 19 };
            let base: u32 = if fir { 0x0100_0000 } else { 1000 };
            let mut xs: Vec<u32> = (0..n as u32).map(|i| base + i * step).collect();
            match order {
                0 => {}
                1 => xs.reverse(),
                _ => {
                    let (a, b): (Vec<u32>, Vec<u32>) = (xs.iter().copied().step_by(2).collect(), xs.iter().copied().skip(1).step_by(2).rev().collect());
                    xs = a.into_iter().chain(b).collect();
                }
            }
            let sorted_min = base;
            let sorted_max = base + (n as u32 - 1) * step;
            let last = match extra {
                0 => sorted_min - 1,
                1 => base + (n as u32 / 2) * step + 1,
                2 => sorted_max + 1,
                3 => xs[0],
                4 => xs[n / 2],
                _ => xs[n - 1],
            };
            xs.push(last);
            if fir {
                let adds: Vec<(u32, u8)> = xs.iter().enumerate().map(|(i, s)| (*s, (i % 250) as u8)).collect();
                let canonical: Vec<(u32, u8)> = Fci::fir_map(&adds).into_iter().collect();
                let model = Pkt::Fb { kind: Kind::Payload, sender: 3, media: 4, fci: Fci::Fir(canonical), pad: 0 };
                let hist = || format!("Fir::builder() + {} add_ssrc calls ({} order), then add_ssrc({:#x}, ..)", n, ["ascending", "descending", "interleaved"][order as usize], last);
                all_wraps(l, "FirBuilder", &hist, &model, &|| PayloadFeedback::builder_owned(build::fir_builder_p(&adds, probing())).sender_ssrc(3).media_ssrc(4));
            } else {
                let seq: Vec<u16> = xs.iter().map(|x| *x as u16).collect();
                let model = Pkt::Fb { kind: Kind::Transport, sender: 3, media: 4, fci: Fci::Nack(Fci::nack_set(&seq)), pad: 0 };
                let hist = || format!("Nack::builder() + {} add_rtp_sequence calls ({} order), then add_rtp_sequence({})", n, ["ascending", "descending", "interleaved"][order as usize], last);
                all_wraps(l, "NackBuilder", &hist, &model, &|| TransportFeedback::builder_owned(build::nack_builder_p(&seq, probing())).sender_ssrc(3).media_ssrc(4));
            }
        });
    }
    // every list length n up to a bound, then one element added again - the one that was added p-th, for EVERY p: an
    // index, a search window or a fast path of any size in between (100 entries, 144, 300 ...) that misplaces exactly
    // one position shows here (see gens::dense_bound for the reasoning; the bound is smaller because the space is
    // quadratic)
    {
        let nmax = t.pick(320u64, 1100);
        ctx.bound("re-add every position", format!("NackBuilder / FirBuilder: every n in 1..={} adds (ascending; FIR also descending), then the p-th added element again for every p < n", nmax));
        let pairs = nmax * (nmax + 1) / 2;
        ctx.run_space("readd-every-position", pairs * 3, |idx, l| {
            let kind = idx / pairs; // 0 FIR ascending, 1 FIR descending, 2 NACK
            let k = idx % pairs;
            // k -> (n, p) with p < n: n = smallest with n(n+1)/2 > k
            let mut n = (((8.0 * k as f64 + 1.0).sqrt() - 1.0) / 2.0) as u64;
            while n * (n + 1) / 2 > k {
                n -= 1;
            }
            while (n + 1) * (n + 2) / 2 <= k {
                n += 1;
            }
            let p = (k - n * (n + 1) / 2) as usize;
            let n = n as usize + 1;
            l.evals += 1;
            l.states += 1;
            if kind < 2 {
                let mut adds: Vec<(u32, u8)> = (0..n as u32).map(|i| (0x0100_0000 + i * 0x0001_0001, (i % 250) as u8)).collect();
                if kind == 1 {
                    adds.reverse();
                }
                let again = (adds[p].0, 251);
                adds.push(again);
                let canonical: Vec<(u32, u8)> = Fci::fir_map(&adds).into_iter().collect();
                let model = Pkt::Fb { kind: Kind::Payload, sender: 3, media: 4, fci: Fci::Fir(canonical), pad: 0 };
                let hist = || format!("Fir::builder() + {} add_ssrc calls ({}), then the SSRC added {}-th again with another sequence number", n, if kind == 0 { "ascending" } else { "descending" }, p + 1);
                l.sample(|| hist());
                match guard::catch(|| bytes_of(&PayloadFeedback::builder_owned(build::fir_builder(&adds)).sender_ssrc(3).media_ssrc(4))) {
                    Err(pi) => l.subject_panic("history:FirBuilder", &pi, || hist()),
                    Ok(got) => judge(l, "FirBuilder", &hist, &model, Wrap::None, got),
                }
            } else {
                let mut seq: Vec<u16> = (0..n as u32).map(|i| (1000 + i * 19) as u16).collect();
                seq.push(seq[p]);
                let model = Pkt::Fb { kind: Kind::Transport, sender: 3, media: 4, fci: Fci::Nack(Fci::nack_set(&seq)), pad: 0 };
                let hist = || format!("Nack::builder() + {} add_rtp_sequence calls, then the number added {}-th again", n, p + 1);
                l.sample(|| hist());
                match guard::catch(|| bytes_of(&TransportFeedback::builder_owned(build::nack_builder(&seq)).sender_ssrc(3).media_ssrc(4))) {
                    Err(pi) => l.subject_panic("history:NackBuilder", &pi, || hist()),
                    Ok(got) => judge(l, "NackBuilder", &hist, &model, Wrap::None, got),
                }
            }
        });
    }
    // a NACK builder that was sized and written, then extended: {b, b + d1} then b + d2 for all d1, d2 in 0..=40, in
    // both orders of the first two, with the builder queried after every add (all wrapper flavours)
    ctx.run_space("nack-extend-after-query", 41 * 41 * 2, |idx, l| {
        let (d1, d2, rev) = ((idx % 41) as u16, ((idx / 41) % 41) as u16, idx / 1681 == 1);
        let b = [1000u16, 0xFFF0][(d1 as usize + d2 as usize) % 2];
        let seq: Vec<u16> = if rev { vec![b.wrapping_add(d1), b, b.wrapping_add(d2)] } else { vec![b, b.wrapping_add(d1), b.wrapping_add(d2)] };
        let model = Pkt::Fb { kind: Kind::Transport, sender: 3, media: 4, fci: Fci::Nack(Fci::nack_set(&seq)), pad: 0 };
        let hist = || format!("Nack::builder(){}", seq.iter().map(|s| format!(".add_rtp_sequence({})", s)).collect::<String>());
        all_wraps(l, "NackBuilder", &hist, &model, &|| TransportFeedback::builder_owned(build::nack_builder_p(&seq, probing())).sender_ssrc(3).media_ssrc(4));
    });
    // Nesting equivalence: a compound builder is itself a writer and may be a member; however a member list is
    // bracketed into nested compound builders, the bytes are those of the flat list
    {
        let menu: Vec<Member> = vec![
            Member::Plain(Pkt::Bye { ssrcs: vec![0x0A0B_0C0D], reason: String::new(), pad: 0 }),
            Member::Plain(Pkt::Rr { ssrc: 0x0102_0304, blocks: vec![gens::sentinel_rb(0, 0)], pad: 0 }),
            Member::Plain(Pkt::App { ssrc: 7, subtype: 3, name: "name".into(), data: vec![1, 2, 3, 4], pad: 0 }),
            Member::Wrapped(Pkt::Sdes { chunks: vec![Chunk { ssrc: 0x0000_0100, items: vec![Item::new(1, b"ab")] }], pad: 0 }),
            Member::Plain(Pkt::Fb { kind: Kind::Transport, sender: 0x1122_3344, media: 0x5566_7788, fci: Fci::Nack(vec![100, 101]), pad: 0 }),
        ];
        let k = menu.len() as u64;
        ctx.bound("nesting", "member lists of length 1..=3 over 5 packets (the last one padded or not) x 6 bracketings into nested compound builders");
        ctx.run_space("compound-nesting-equivalence", (seq_count(k, 3) - 1) * 2, |idx, l| {
            let seq = seq_decode(k, idx / 2 + 1);
            let mut ms: Vec<Member> = seq.iter().map(|&i| menu[i as usize].clone()).collect();
            if idx % 2 == 1 {
                // padding on the last member (legal)
                let last = ms.len() - 1;
                if let Member::Plain(p) | Member::Wrapped(p) = &mut ms[last] {
                    p.set_pad(8);
                }
            }
            l.evals += 1;
            l.states += 1;
            l.sample(|| format!("nestings of {} members", ms.len()));
            let flat = match guard::catch(|| bytes_of(&build::compound_builder(&ms))) {
                Ok(f) => f,
                Err(pi) => {
                    l.subject_panic("nesting:flat", &pi, || format!("{:?}", ms));
                    return;
                }
            };
            if let Ok(b) = &flat {
                l.nontrivial(crate::engine::run::fp_bytes(b));
            }
            let n = ms.len();
            let mut shapes: Vec<(&str, Vec<Member>)> = vec![("[[all]]", vec![Member::Nested(ms.clone())]), ("[[a],[b],..]", ms.iter().map(|m| Member::Nested(vec![m.clone()])).collect())];
            if n >= 2 {
                let mut front = vec![Member::Nested(ms[..n - 1].to_vec())];
                front.push(ms[n - 1].clone());
                shapes.push(("[[a,..],z]", front));
                let mut back = vec![ms[0].clone()];
                back.push(Member::Nested(ms[1..].to_vec()));
                shapes.push(("[a,[..,z]]", back));
                shapes.push(("[[[a,..]],z]", vec![Member::Nested(vec![Member::Nested(ms[..n - 1].to_vec())]), ms[n - 1].clone()]));
                // an empty compound contributes nothing - in front; behind a padded last member it would make that
                // member a non-last one, which is a different configuration
                shapes.push(("[[],a,..,z]", std::iter::once(Member::Nested(vec![])).chain(ms.iter().cloned()).collect()));
            }
            for (name, shape) in shapes {
                l.transitions += 1;
                l.validated += 1;
                match guard::catch(|| bytes_of(&build::compound_builder(&shape))) {
                    Err(pi) => l.subject_panic("nesting", &pi, || format!("{} of {:?}", name, ms)),
                    Ok(got) => {
                        if got == flat {
                            l.hit("nesting agrees with the flat list");
                        } else {
                            l.violation(
                                "nesting-dependent-bytes:CompoundBuilder",
                                || format!("{} of {:?}", name, ms),
                                || format!("flat: {} nested: {}", flat.as_ref().map(|b| hex_short(b)).unwrap_or_else(|e| format!("{:?}", e)), got.as_ref().map(|b| hex_short(b)).unwrap_or_else(|e| format!("{:?}", e))),
                            );
                            return;
                        }
                    }
                }
            }
        });
        ctx.require_hit("nesting agrees with the flat list");
    }
    // Flavour equivalence over whole configuration spaces: every configuration of the round-trip generators
    // (C03-C05; thorough: C02 as well) is realised in all API flavours - owned or borrowed variants of every
    // API that has both, bare builder / PacketBuilder::from / one-member compound / compound of the PacketBuilder,
    // and with or without the intermediate builder being queried after every call - and all of them must give the
    // bytes (or the error) of the plain flavour.
    let mut spaces = gens::rpsi_spaces(t, ctx.seed);
    spaces.extend(gens::bye_spaces(t, ctx.seed));
    spaces.extend(gens::app_spaces(t, ctx.seed));
    spaces.extend(gens::sdes_spaces(t, ctx.seed));
    spaces.extend(gens::fir_spaces(t, ctx.seed));
    spaces.extend(gens::sli_spaces(t, ctx.seed));
    spaces.extend(gens::pli_spaces(t, ctx.seed));
    spaces.extend(gens::nack_spaces(Tier::Quick, ctx.seed));
    if t == Tier::Thorough {
        spaces.extend(gens::sr_rr_spaces(Tier::Quick, ctx.seed));
    }
    let flavours = Variant::full();
    for sp in spaces {
        let get = &sp.get;
        ctx.run_space(&format!("flavours:{}", sp.name), sp.len, |idx, l| {
            let model = get(idx);
            l.evals += 1;
            l.states += 1;
            l.sample(|| format!("flavours of {}", model.short()));
            let want = match guard::catch(|| canonical(&model)) {
                Ok(w) => w.map(|b| canon_fir(&model, b)),
                Err(pi) => {
                    l.subject_panic("flavour:plain", &pi, || model.short());
                    return;
                }
            };
            let want_side = guard::catch(|| {
                let mut out = None;
                build::with_writer(&model, Variant::PLAIN, &mut |w| out = Some(side_answers(w)));
                out
            })
            .ok()
            .flatten();
            if let Ok(b) = &want {
                l.nontrivial(crate::engine::run::fp_bytes(b));
            }
            for var in flavours.iter().skip(1) {
                l.transitions += 1;
                let r = guard::catch(|| {
                    let mut out = Err(WErr::Other("not built".into()));
                    let mut side = None;
                    build::with_writer(&model, *var, &mut |w| {
                        out = bytes_of(w);
                        side = Some(side_answers(w));
                    });
                    (out, side)
                });
                match r {
                    Err(pi) => l.subject_panic(&format!("flavour:{}", model.builder_name()), &pi, || format!("{} [{:?}]", model.short(), var)),
                    Ok((got, side)) => {
                        // a one-member compound reports its member's padding and is judged as a whole in a
                        // non-last position, so it must give the same two answers as the bare builder
                        if want.is_ok() && side != want_side {
                            l.violation(
                                format!("flavour-dependent-padding-answer:{}", model.builder_name()),
                                || format!("{} [{:?}]", model.short(), var),
                                || format!("plain construction: get_padding / size of [this, BYE] = {:?}; this flavour: {:?}", want_side, side),
                            );
                            continue;
                        }
                        l.validated += 1;
                        let got = got.map(|b| canon_fir(&model, b));
                        if got == want {
                            l.hit("flavour agrees with the plain construction");
                        } else {
                            let what = match (&got, &want) {
                                (Ok(a), Ok(b)) if a.len() != b.len() => "size",
                                (Ok(_), Ok(_)) => "bytes",
                                _ => "outcome",
                            };
                            let tag = if var.owned && !var.probe && var.wrap == Wrap::None {
                                "owned"
                            } else if var.probe {
                                "probed"
                            } else {
                                "wrapped"
                            };
                            l.violation(
                                format!("flavour-dependent-{}:{}:{}", what, model.builder_name(), tag),
                                || format!("{} [{:?}]", model.short(), var),
                                || {
                                    format!(
                                        "plain construction gives {} but this flavour gives {}",
                                        want.as_ref().map(|b| hex_short(b)).unwrap_or_else(|e| format!("{:?}", e)),
                                        got.as_ref().map(|b| hex_short(b)).unwrap_or_else(|e| format!("{:?}", e))
                                    )
                                },
                            );
                        }
                    }
                }
            }
        });
    }
    ctx.require_hit("history agrees with canonical construction");
    ctx.require_hit("flavour agrees with the plain construction");
}
