//! C06 (announced = written), C07 (RFC image), C16 (accept exactly the representable), C17 (define
//! every claimed byte, touch nothing else): four oracles over the same writer-target spaces.

use super::targets::{all_target_spaces, AnyWriter, Target, TargetSpace};
use crate::engine::guard;
use crate::engine::json::hex_short;
use crate::engine::run::{fp_bytes, fp_combine, fp_debug, Ctx, Local};
use crate::refmodel::model::*;
use crate::refmodel::read;
use crate::refmodel::repr::{self, Verdict, WErr};
use crate::refmodel::wire;

/// which buffer lengths a case is crossed with
#[derive(Clone, Copy, PartialEq, Eq)]
enum Bufs {
    /// every length 0..=n+8 (small spaces, n <= 128), else the boundary lengths
    All,
    /// the boundary lengths {0,1,n-4,n-1,n,n+1,n+8} plus one index-rotated length
    Boundary,
    /// {n-1, n, n+8}: the second (probed) realisation of a configuration, whose buffer behaviour the first
    /// realisation has already been crossed with
    Exact,
}

fn buffer_lengths(n: usize, idx: u64, bufs: Bufs) -> Vec<usize> {
    if bufs == Bufs::Exact {
        let mut v = vec![n.saturating_sub(1), n, n + 8];
        v.dedup();
        return v;
    }
    let all = bufs == Bufs::All;
    if all && n <= 128 {
        (0..=n + 8).collect()
    } else {
        let mut v = vec![0, 1, n.saturating_sub(4), n.saturating_sub(1), n, n + 1, n + 8, 2 * n];
        v.push((idx as usize).wrapping_mul(2654435761) % (n + 9));
        v.sort_unstable();
        v.dedup();
        v
    }
}

fn run_targets(ctx: &mut Ctx, spaces: Vec<TargetSpace>, f: impl Fn(&Target, u64, Bufs, &mut Local) + Sync) {
    for sp in spaces {
        let get = &sp.get;
        let all = sp.all_buffers;
        ctx.run_space(&sp.name, sp.len, |idx, l| {
            let t = get(idx);
            l.evals += 1;
            l.states += 1;
            l.sample(|| t.short());
            f(&t, idx, if all { Bufs::All } else { Bufs::Boundary }, l);
            // every packet-builder configuration is also realised in the probed flavour (the intermediate
            // builder queried after every call), whatever flavour the rotation gave it
            if let Target::Compound(ms) = &t {
                // the same member list added to a compound builder that is queried after every add_packet
                let tp = Target::CompoundProbed(ms.clone());
                l.states += 1;
                f(&tp, idx, Bufs::Exact, l);
            }
            if let Target::Pkt(p, var) = &t {
                if !var.probe {
                    let tp = Target::Pkt(p.clone(), crate::subject::build::Variant { probe: true, ..*var });
                    l.states += 1;
                    f(&tp, idx, Bufs::Exact, l);
                }
            }
        });
    }
}

fn common_setup(ctx: &mut Ctx, what: &str) {
    ctx.rule = format!(
        "{}; a case is one writer target (builder configuration x API flavour, FCI/chunk/item builder alone, compound member list, third-party writer), crossed with buffer lengths; non-trivial = size calculation succeeded, distinct by fingerprint of (target, announced size)",
        what
    );
    ctx.bound("flavours", "borrowed/owned x {bare, PacketBuilder, one-member compound, compound of PacketBuilder} rotated over the index; every packet-builder configuration additionally in the probed flavour (builder queried after every call)");
    ctx.bound("buffer lengths", "all 0..=n+8 for small spaces and n<=128; else {0,1,n-4,n-1,n,n+1,n+8,2n} plus one index-rotated length");
    ctx.bound("compound member lists", ctx.tier.pick("length 0..=3 over a 27-kind menu", "length 0..=4 over a 27-kind menu"));
    ctx.assume("configurations outside the enumerated product spaces (DESIGN.md section 3) are not explored");
}

// ---------------------------------------------------------------------------------------------

pub fn c06(ctx: &mut Ctx) {
    common_setup(ctx, "C06: announced size vs written size");
    let spaces = all_target_spaces(ctx.tier, ctx.seed);
    run_targets(ctx, spaces, |t, idx, all, l| {
        let site = t.builder();
        let r = guard::catch(|| {
            t.with_writer(&mut |w| c06_case(t, w, idx, all, &site, l));
        });
        if let Err(pi) = r {
            l.subject_panic(&format!("write:{}", site), &pi, || t.short());
        }
    });
    ctx.require_hit("size-ok");
    ctx.require_hit("size-err");
    ctx.require_hit("too-small-checked");
}

fn c06_case(t: &Target, w: &dyn AnyWriter, idx: u64, all: Bufs, site: &str, l: &mut Local) {
    l.transitions += 1;
    match w.size() {
        Ok(n) => {
            l.hit("size-ok");
            l.nontrivial(fp_combine(fp_debug(t), n as u64));
            if t.whole_packet() && n % 4 != 0 {
                l.violation(format!("size-not-multiple-of-4:{}", site), || t.short(), || format!("calculate_size() = {}", n));
            }
            for cap in buffer_lengths(n, idx, all) {
                let mut buf = crate::engine::place::OutBuf::new(cap, |_| 0x5A);
                l.transitions += 1;
                l.validated += 1;
                let r = guard::catch(|| w.write(&mut buf));
                match r {
                    Err(pi) => {
                        l.subject_panic(&format!("write:{}", site), &pi, || format!("{} into {} bytes (announced {})", t.short(), cap, n));
                        return;
                    }
                    Ok(Ok(m)) => {
                        if cap < n {
                            l.violation(format!("short-buffer-accepted:{}", site), || t.short(), || format!("announced {}, buffer {}, write_into returned Ok({})", n, cap, m));
                        } else if m != n {
                            l.violation(format!("written-differs-from-announced:{}", site), || t.short(), || format!("announced {}, buffer {}, write_into returned Ok({})", n, cap, m));
                        } else {
                            l.hit("write-ok");
                        }
                    }
                    Ok(Err(e)) => {
                        if cap >= n {
                            l.violation(format!("write-fails-after-size-ok:{}", site), || t.short(), || format!("announced {}, buffer {}, write_into returned Err({:?})", n, cap, e));
                        } else if e != WErr::OutputTooSmall(n) {
                            l.violation(format!("wrong-too-small-error:{}", site), || t.short(), || format!("announced {}, buffer {}, write_into returned Err({:?})", n, cap, e));
                        } else {
                            l.hit("too-small-checked");
                        }
                    }
                }
            }
        }
        Err(e) => {
            l.hit("size-err");
            for cap in [0usize, 8, 64, 4096] {
                let mut buf = crate::engine::place::OutBuf::new(cap, |_| 0x5A);
                l.transitions += 1;
                l.validated += 1;
                match guard::catch(|| w.write(&mut buf)) {
                    Err(pi) => {
                        l.subject_panic(&format!("write-invalid:{}", site), &pi, || t.short());
                        return;
                    }
                    Ok(r) => {
                        if r != Err(e.clone()) {
                            l.violation(format!("write-error-differs-from-size-error:{}", site), || t.short(), || format!("calculate_size() = Err({:?}), write_into({} bytes) = {:?}", e, cap, r));
                        }
                    }
                }
            }
        }
    }
}

// ---------------------------------------------------------------------------------------------

pub fn c17(ctx: &mut Ctx) {
    common_setup(ctx, "C17: writers define every byte they claim and touch nothing else");
    ctx.bound("prefill patterns", "(7i+3)&0xFF and its complement, position dependent; the image itself with the bytes at all 16 sets of residues mod 4 inverted (every fourth configuration of at most 128 bytes; 3 sets otherwise), with all but the first and last byte inverted, with one byte inverted");
    let spaces = all_target_spaces(ctx.tier, ctx.seed);
    run_targets(ctx, spaces, |t, idx, all, l| {
        let site = t.builder();
        let r = guard::catch(|| {
            t.with_writer(&mut |w| c17_case(t, w, idx, all, &site, l));
        });
        if let Err(pi) = r {
            // a writer that unwinds has failed without saying what it did to the buffer
            l.subject_panic(&format!("write:{}", site), &pi, || t.short());
        }
    });
    ctx.require_hit("success-checked");
    ctx.require_hit("failure-checked");
}

#[inline]
fn pat_a(i: usize) -> u8 {
    (7 * i + 3) as u8
}
#[inline]
fn pat_b(i: usize) -> u8 {
    !pat_a(i)
}

fn c17_case(t: &Target, w: &dyn AnyWriter, idx: u64, all: Bufs, site: &str, l: &mut Local) {
    l.transitions += 1;
    let size = w.size();
    let caps = match &size {
        Ok(n) => buffer_lengths(*n, idx, all),
        Err(_) => vec![0, 8, 64, 4096],
    };
    if let Ok(n) = &size {
        l.nontrivial(fp_combine(fp_debug(t), *n as u64));
    }
    // the public unchecked writer, handed a buffer of the announced size or larger: whatever number of bytes it
    // reports, those bytes must not depend on the buffer's previous contents and everything beyond them must be
    // left alone (the length field follows the buffer by documentation; nothing else may)
    if let Ok(n) = &size {
        if all != Bufs::Exact || *n <= 256 {
            for extra in [0usize, 4, 12] {
                let cap = *n + extra;
                let mut a = crate::engine::place::OutBuf::new(cap, pat_a);
                let mut b = crate::engine::place::OutBuf::new(cap, pat_b);
                let ra = guard::catch(|| w.write_unchecked(&mut a));
                let rb = guard::catch(|| w.write_unchecked(&mut b));
                match (ra, rb) {
                    (Ok(None), _) | (_, Ok(None)) => break,
                    (Err(pi), _) | (_, Err(pi)) => {
                        l.subject_panic(&format!("write-unchecked:{}", site), &pi, || format!("{} into {} bytes (announced {})", t.short(), cap, n));
                        break;
                    }
                    (Ok(Some(ma)), Ok(Some(mb))) => {
                        l.transitions += 2;
                        l.validated += 1;
                        if ma != mb {
                            l.violation(format!("unchecked-result-depends-on-buffer-contents:{}", site), || t.short(), || format!("buffer {}: {} vs {}", cap, ma, mb));
                            break;
                        }
                        let m = ma.min(cap);
                        if let Some(i) = (0..m).find(|&i| a[i] != b[i]) {
                            l.violation(format!("unchecked-claimed-byte-not-written:{}", site), || t.short(), || format!("write_into_unchecked into {} bytes reports {} written, byte {} keeps the buffer's previous content", cap, ma, i));
                            break;
                        }
                        if let Some(i) = (m..cap).find(|&i| a[i] != pat_a(i) || b[i] != pat_b(i)) {
                            l.violation(format!("unchecked-touches-beyond-written:{}", site), || t.short(), || format!("write_into_unchecked into {} bytes reports {} written, yet byte {} was changed", cap, ma, i));
                            break;
                        }
                        l.hit("unchecked-write-checked");
                    }
                }
            }
        }
    }
    for cap in caps {
        let mut a = crate::engine::place::OutBuf::new(cap, pat_a);
        let mut b = crate::engine::place::OutBuf::new(cap, pat_b);
        l.transitions += 2;
        l.validated += 1;
        let ra = match guard::catch(|| w.write(&mut a)) {
            Ok(r) => r,
            Err(pi) => {
                // a write that ends by unwinding is a failed write; it may have left the buffer half written
                l.subject_panic(&format!("write:{}", site), &pi, || format!("{} into {} bytes", t.short(), cap));
                return;
            }
        };
        let rb = match guard::catch(|| w.write(&mut b)) {
            Ok(r) => r,
            Err(pi) => {
                l.subject_panic(&format!("write:{}", site), &pi, || format!("{} into {} bytes", t.short(), cap));
                return;
            }
        };
        if ra != rb {
            l.violation(format!("result-depends-on-buffer-contents:{}", site), || t.short(), || format!("buffer {}: {:?} vs {:?}", cap, ra, rb));
            continue;
        }
        match ra {
            Ok(n) => {
                let n = n.min(cap);
                // FIR entry order may differ between two writes of different instances, but these are two
                // writes of the same instance (same map, same order), so byte equality is demanded.
                if let Some(i) = (0..n).find(|&i| a[i] != b[i]) {
                    l.violation(format!("claimed-byte-not-written:{}", site), || t.short(), || {
                        format!("buffer {}: byte {} of the {} claimed keeps the buffer's previous content ({:02x} / {:02x}); image {}", cap, i, n, a[i], b[i], hex_short(&a[..n]))
                    });
                } else if let Some(i) = (n..cap).find(|&i| a[i] != pat_a(i) || b[i] != pat_b(i)) {
                    l.violation(format!("byte-beyond-claimed-size-modified:{}", site), || t.short(), || format!("buffer {}: byte {} lies beyond the {} claimed but was modified", cap, i, n));
                } else {
                    l.hit("success-checked");
                }
            }
            Err(e) => {
                if let Some(i) = (0..cap).find(|&i| a[i] != pat_a(i) || b[i] != pat_b(i)) {
                    l.violation(format!("failed-write-modified-buffer:{}", site), || t.short(), || format!("buffer {}: write_into returned Err({:?}) but byte {} was modified", cap, e, i));
                } else {
                    l.hit("failure-checked");
                }
            }
        }
    }
    // buffers that already hold part of the right answer: the image itself with the bytes at chosen positions
    // inverted (positions by residue modulo 4 - all sixteen residue sets for every fourth small packet, three otherwise -,
    // everything but the first and last byte, and a single byte that moves with the case index). A writer that
    // skips work because the buffer "already looks right" at the places it looks at leaves the inverted bytes behind.
    if let Ok(n) = size {
        if n > 0 && n <= 4096 {
            let mut img = crate::engine::place::OutBuf::new(n, pat_a);
            if let Ok(Ok(m)) = guard::catch(|| w.write(&mut img)) {
                if m == n {
                    let img: Vec<u8> = img.into_vec();
                    let sets: &[u8] = if n <= 128 && idx % 4 == 0 { &[0, 1, 2, 3, 4, 5, 6, 7, 8, 9, 10, 11, 12, 13, 14, 15] } else { &[0b1001, 0b0001, 0b1000] };
                    let single = (idx as usize).wrapping_mul(7) % n;
                    let mut prefills: Vec<(String, Box<dyn Fn(usize) -> bool>)> = Vec::new();
                    for &k in sets {
                        prefills.push((format!("bytes at residues {:04b} (mod 4) already right", k), Box::new(move |i| k >> (i % 4) & 1 == 1)));
                    }
                    prefills.push(("first and last byte already right".into(), Box::new(move |i| i == 0 || i + 1 == n)));
                    prefills.push((format!("every byte but byte {} already right", single), Box::new(move |i| i != single)));
                    for (what, keep) in prefills {
                        let mut b = crate::engine::place::OutBuf::new(n, |i| if keep(i) { img[i] } else { !img[i] });
                        l.transitions += 1;
                        match guard::catch(|| w.write(&mut b)) {
                            Err(pi) => {
                                l.subject_panic(&format!("write:{}", site), &pi, || format!("{} into a buffer that holds part of its image", t.short()));
                                return;
                            }
                            Ok(r) => {
                                if r != Ok(n) {
                                    l.violation(format!("result-depends-on-buffer-contents:{}", site), || t.short(), || format!("buffer of {} bytes with {}: {:?}", n, what, r));
                                    return;
                                }
                                if let Some(i) = (0..n).find(|&i| b[i] != img[i]) {
                                    l.violation(format!("claimed-byte-not-written:{}", site), || t.short(), || format!("buffer of {} bytes with {}: byte {} keeps the buffer's previous content ({:02x}, the image has {:02x}); image {}", n, what, i, b[i], img[i], hex_short(&img)));
                                    return;
                                }
                            }
                        }
                    }
                    l.hit("partly-right-buffers-checked");
                }
            }
        }
    }
}

// ---------------------------------------------------------------------------------------------

pub fn c07(ctx: &mut Ctx) {
    common_setup(ctx, "C07: bytes written vs the image computed by the independent RFC encoder");
    ctx.bound("buffer", "exactly the announced size, pre-filled with 0xA5");
    let spaces = all_target_spaces(ctx.tier, ctx.seed);
    run_targets(ctx, spaces, |t, _idx, _all, l| {
        let broken = t.broken();
        if !broken.is_empty() {
            // A configuration the RFCs give no image: nothing to compare - but nothing may be written for it either.
            // If the builder accepts it, whatever it writes is not an RFC image. (Oversize packets are left to
            // C16, where they are recorded known findings.)
            if broken.iter().all(|b| b.rule != "total-size-at-most-65536-words") {
                let mut accepted = None;
                let r = guard::catch(|| t.with_writer(&mut |w| accepted = Some(w.size().is_ok())));
                if r.is_ok() && accepted == Some(true) {
                    l.violation(format!("accepted-though-the-rfc-defines-no-image:{}:{}", broken[0].rule, t.builder()), || t.short(), || format!("violated: {:?}", broken.iter().map(|b| b.rule).collect::<Vec<_>>()));
                    return;
                }
            }
            l.hit("unrepresentable (no image defined; C16's domain)");
            return;
        }
        let site = t.builder();
        let r = guard::catch(|| {
            t.with_writer(&mut |w| c07_case(t, w, &site, l));
        });
        if let Err(pi) = r {
            // no image at all for a representable configuration
            l.subject_panic(&format!("write:{}", site), &pi, || t.short());
        }
    });
    ctx.require_hit("image-equal");
    ctx.require_hit("nack-image-checked");
    ctx.require_hit("fir-image-checked");
}

fn c07_case(t: &Target, w: &dyn AnyWriter, site: &str, l: &mut Local) {
    l.transitions += 1;
    let n = match w.size() {
        Ok(n) => n,
        Err(_) => {
            l.hit("builder-rejected a representable configuration (C16's domain)");
            return;
        }
    };
    let mut buf = crate::engine::place::OutBuf::new(n, |_| 0xA5);
    l.transitions += 1;
    let m = match guard::catch(|| w.write(&mut buf)) {
        // the image is what was written, whatever size was announced: a writer that announces more than it writes
        // has put a wrong length field into its header
        Ok(Ok(m)) => m.min(buf.len()),
        Ok(Err(e)) => {
            l.violation(format!("no-image-written:{}", site), || t.short(), || format!("calculate_size() = {}, write_into an exactly sized buffer = Err({:?})", n, e));
            return;
        }
        Err(pi) => {
            l.subject_panic(&format!("write:{}", site), &pi, || t.short());
            return;
        }
    };
    let got = &buf[..m];
    let want = t.image();
    l.validated += 1;
    l.nontrivial(fp_bytes(got));
    if got == &want[..] {
        l.hit("image-equal");
        if matches!(t.fci(), Some(Fci::Nack(_))) {
            l.hit("nack-image-checked");
        }
        if matches!(t.fci(), Some(Fci::Fir(_))) {
            l.hit("fir-image-checked");
        }
        return;
    }
    // the two licensed freedoms: FIR entry order, and the choice among minimal NACK packings
    match t.fci() {
        Some(Fci::Fir(_)) if got.len() == want.len() => {
            let off = if matches!(t, Target::Fci(..)) { 0 } else { 12 };
            let pad = match t {
                Target::Pkt(p, _) => p.pad() as usize,
                _ => 0,
            };
            let end = got.len() - pad;
            let mut a: Vec<&[u8]> = got[off..end].chunks(8).collect();
            let mut b: Vec<&[u8]> = want[off..end].chunks(8).collect();
            a.sort();
            b.sort();
            if got[..off] == want[..off] && got[end..] == want[end..] && a == b {
                l.hit("image-equal");
                l.hit("fir-image-checked");
                return;
            }
        }
        Some(Fci::Nack(seqs)) if got.len() == want.len() => {
            let off = if matches!(t, Target::Fci(..)) { 0 } else { 12 };
            let pad = match t {
                Target::Pkt(p, _) => p.pad() as usize,
                _ => 0,
            };
            let end = got.len() - pad;
            let words = &got[off..end];
            let set = Fci::nack_set(seqs);
            let decoded = read::nack_unpack(words);
            let pids: Vec<u16> = words.chunks_exact(4).map(|w| read::rd16(w, 0)).collect();
            let increasing = pids.windows(2).all(|p| p[0] < p[1]);
            let minimal = words.len() / 4 == wire::nack_pack(&set).len();
            let mut sorted = decoded.clone();
            sorted.sort_unstable();
            let each_once = sorted.windows(2).all(|p| p[0] != p[1]);
            if got[..off] == want[..off] && got[end..] == want[end..] && sorted == set && each_once && increasing && minimal {
                l.hit("image-equal");
                l.hit("nack-image-checked");
                l.hit("nack-alternative-minimal-packing");
                return;
            }
        }
        _ => {}
    }
    let first = got.iter().zip(want.iter()).position(|(x, y)| x != y).unwrap_or(got.len().min(want.len()));
    let region = if got.len() != want.len() {
        "length"
    } else if first < 4 {
        "header"
    } else {
        let pad = match t {
            Target::Pkt(p, _) => p.pad() as usize,
            _ => 0,
        };
        if first >= got.len() - pad {
            "padding-trailer"
        } else {
            "body"
        }
    };
    l.violation(
        format!("image-differs:{}:{}", site, region),
        || t.short(),
        || format!("first difference at byte {}: written {} expected {}", first, hex_short(got), hex_short(&want)),
    );
}

// ---------------------------------------------------------------------------------------------

pub fn c16(ctx: &mut Ctx) {
    ctx.rule = "C16: for every target the reference predicate yields the set of violated rules with their admissible error values; calculate_size must be Ok iff the set is empty and an Err must be admissible; non-trivial = at least one rule parameter is within one step of its limit (every case of the rules-* spaces), distinct by fingerprint of the target".into();
    ctx.bound("rule parameters", "padding 0..=255 (all), counts {0,30,31,32,33[,255]}, lengths {0,1,254,255,256,257}, PRIV band prefix+value 253..=256, names 0..=5 bytes ASCII/non-ASCII, payload lengths 0..=9, RPSI pt {0,126..=129,255} x ignored bits 0..=10 x {empty,1,2 bytes}, sizes 65535/65536/65537 words");
    ctx.bound("combinations", "full product per builder type, so every pair of simultaneously violated rules occurs");
    ctx.assume("SDES item type 0 (which would be read as a terminator) is outside the property's domain and is not built");
    let spaces = all_target_spaces(ctx.tier, ctx.seed);
    run_targets(ctx, spaces, |t, _idx, _all, l| {
        let broken = t.broken();
        let site = t.builder();
        let mut res: Option<Result<usize, WErr>> = None;
        l.transitions += 1;
        let r = guard::catch(|| t.with_writer(&mut |w| res = Some(w.size())));
        if let Err(pi) = r {
            l.subject_panic(&format!("calculate_size:{}", site), &pi, || t.short());
            return;
        }
        let res = match res {
            Some(r) => r,
            None => return,
        };
        l.validated += 1;
        l.nontrivial(fp_debug(t));
        match repr::judge(&broken, &res) {
            Verdict::Ok => {
                if broken.is_empty() {
                    l.hit("representable-accepted");
                } else {
                    l.hit("unrepresentable-rejected-with-admissible-error");
                }
            }
            Verdict::WronglyAccepted(rule) => {
                let key = if rule == "total-size-at-most-65536-words" { format!("oversize-accepted:{}", site) } else { format!("accepted-despite:{}:{}", rule, site) };
                l.violation(key, || t.short(), || format!("calculate_size() = {:?} although rule '{}' is violated", res, rule));
            }
            Verdict::WronglyRejected => {
                l.violation(format!("representable-rejected:{}", site), || t.short(), || format!("calculate_size() = {:?} for a representable configuration", res));
            }
            Verdict::WrongError(m) => {
                l.violation(format!("error-names-no-violated-rule:{}", site), || t.short(), || m.clone());
            }
        }
    });
    ctx.require_hit("representable-accepted");
    ctx.require_hit("unrepresentable-rejected-with-admissible-error");
}
