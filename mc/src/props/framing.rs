//! C08 (accepted only if exactly framed), C18 (errors tell the truth), C12 (generic dispatch and
//! conversions agree with the typed parsers) over the header space and the deviation spaces.

use super::bytes::{self, ByteSpace};
use crate::engine::guard;
use crate::engine::json::hex_short;
use crate::engine::run::{fp_bytes, Ctx, Local, Tier};
use crate::engine::space::{b26, B12};
use crate::refmodel::read;
use crate::subject::observe;
use rtcp_types::prelude::*;
use rtcp_types::*;

#[derive(Clone, Copy, Debug, PartialEq, Eq)]
pub struct HeaderObs {
    pub version: u8,
    pub ty: u8,
    pub count: u8,
    pub subtype: u8,
    pub length: usize,
    pub padding: Option<u8>,
}

#[derive(Clone, Copy, Debug, PartialEq, Eq)]
pub enum TP {
    Sr,
    Rr,
    Sdes,
    Bye,
    App,
    Tfb,
    Pfb,
}

pub const TPS: [TP; 7] = [TP::Sr, TP::Rr, TP::Sdes, TP::Bye, TP::App, TP::Tfb, TP::Pfb];

impl TP {
    pub fn pt(self) -> u8 {
        match self {
            TP::Sr => 200,
            TP::Rr => 201,
            TP::Sdes => 202,
            TP::Bye => 203,
            TP::App => 204,
            TP::Tfb => 205,
            TP::Pfb => 206,
        }
    }
    pub fn min(self) -> usize {
        read::min_len(self.pt())
    }
    pub fn name(self) -> &'static str {
        match self {
            TP::Sr => "SenderReport",
            TP::Rr => "ReceiverReport",
            TP::Sdes => "Sdes",
            TP::Bye => "Bye",
            TP::App => "App",
            TP::Tfb => "TransportFeedback",
            TP::Pfb => "PayloadFeedback",
        }
    }
    pub fn accept_bucket(self) -> &'static str {
        match self {
            TP::Sr => "accepted:SenderReport",
            TP::Rr => "accepted:ReceiverReport",
            TP::Sdes => "accepted:Sdes",
            TP::Bye => "accepted:Bye",
            TP::App => "accepted:App",
            TP::Tfb => "accepted:TransportFeedback",
            TP::Pfb => "accepted:PayloadFeedback",
        }
    }
    pub fn from_pt(pt: u8) -> Option<TP> {
        TPS.iter().copied().find(|t| t.pt() == pt)
    }
    pub fn parse_header(self, s: &[u8]) -> Result<HeaderObs, RtcpParseError> {
        macro_rules! go {
            ($T:ty) => {
                <$T>::parse(s).map(|p| HeaderObs { version: p.version(), ty: p.type_(), count: p.count(), subtype: p.subtype(), length: p.length(), padding: p.padding() })
            };
        }
        match self {
            TP::Sr => go!(SenderReport),
            TP::Rr => go!(ReceiverReport),
            TP::Sdes => go!(Sdes),
            TP::Bye => go!(Bye),
            TP::App => go!(App),
            TP::Tfb => go!(TransportFeedback),
            TP::Pfb => go!(PayloadFeedback),
        }
    }
}

pub fn packet_header(p: &Packet) -> HeaderObs {
    let padding = match p {
        Packet::App(x) => x.padding(),
        Packet::Bye(x) => x.padding(),
        Packet::Rr(x) => x.padding(),
        Packet::Sdes(x) => x.padding(),
        Packet::Sr(x) => x.padding(),
        Packet::TransportFeedback(x) => x.padding(),
        Packet::PayloadFeedback(x) => x.padding(),
        Packet::Unknown(_) => None,
    };
    HeaderObs { version: p.version(), ty: p.type_(), count: p.count(), subtype: p.subtype(), length: p.length(), padding }
}

pub fn packet_variant_pt(p: &Packet) -> Option<u8> {
    Some(match p {
        Packet::App(_) => 204,
        Packet::Bye(_) => 203,
        Packet::Rr(_) => 201,
        Packet::Sdes(_) => 202,
        Packet::Sr(_) => 200,
        Packet::TransportFeedback(_) => 205,
        Packet::PayloadFeedback(_) => 206,
        Packet::Unknown(_) => return None,
    })
}

/// The spaces shared by C08 / C12 / C18.
pub fn framing_spaces(tier: Tier) -> Vec<ByteSpace> {
    let bases = bytes::base_images();
    let mut v = vec![bytes::s1_full(), bytes::s1_all_types(), bytes::s1_long_padded(), bytes::dev1_space(bases.clone()), bytes::trunc_ext_space(bases.clone())];
    match tier {
        Tier::Quick => v.push(bytes::dev2_space(bases, B12.to_vec(), 24)),
        Tier::Thorough => v.push(bytes::dev2_space(bases, b26(), 48)),
    }
    // packets at the size limits (262 144 bytes and around 65 536 bytes) and well-tiled datagrams of 1..=3 tiles
    v.push(bytes::giants_space());
    v.push(bytes::giants_runs_space());
    v.push(bytes::tile_seq_space(3));
    v.push(bytes::long_chain_space());
    let nd = super::gens::dense_bound(tier);
    v.push(bytes::dense_chain_space(nd));
    v.push(bytes::dense_size_space(nd));
    v.push(bytes::dense_total_space(nd));
    v.push(bytes::big_chain_space());
    v.push(bytes::count_x_length_space());
    v
}

fn run_bytes(ctx: &mut Ctx, spaces: Vec<ByteSpace>, f: impl Fn(&[u8], &mut Local) + Sync) {
    super::bytes::placement_bound(ctx);
    let lim = super::bytes::cross_limit(ctx);
    // in the unoptimised second build (common::unoptimised_build_pass) only the long inputs are run
    let child = super::common::is_frames_child();
    for sp in spaces {
        if child && !(sp.name.contains("giant") || sp.name.contains("chain")) {
            continue;
        }
        // the giants (strings of 64 KiB and more) rotate the address residue, see engine::place
        let lim = if sp.name.contains("giant") { 0 } else { lim };
        sp.run(ctx, &sp.name, lim, |s, l| {
            l.evals += 1;
            l.states += 1;
            l.sample(|| hex_short(s));
            f(s, l);
        });
    }
}

fn byte_bounds(ctx: &mut Ctx) {
    ctx.bound("S1", "byte0 (all 256) x 13 packet types x 7 length-field variants x lengths 0..=56 x 6 last bytes x 3 fills; and all 256 packet types on a reduced first/last byte alphabet");
    ctx.bound("S2", ctx.tier.pick("base set W (~190 packets): every 1-byte substitution over all 256 values; every 2-byte substitution over 12 symbols for bases <= 24 bytes", "k=1 over 256 values; k=2 over 26 symbols for bases <= 48 bytes"));
    ctx.bound("S6 / tiles", "giants (262144-byte packets of each type, giant feedback packets under each FCI gate, 65536 BYEs ...) all concatenations of 1..=3 tiles of the 15-kind tile menu, and chains of {7,8,9,15..18,31..34,63,65,130,255,256,257,300,513,1025} mixed-size tiles x 12 tails");
    ctx.bound("S5", "every truncation and +1..+8 extension of W, with/without length re-synchronisation");
    ctx.assume("byte strings outside these spaces are not explored");
}

// ---------------------------------------------------------------------------------------------
// C08

fn check_header_obs(l: &mut Local, who: &str, s: &[u8], h: &HeaderObs, has_padding_accessor: bool) {
    let want = read::header(s).unwrap();
    let want_pad = if want.p { Some(*s.last().unwrap()) } else { None };
    if h.version != want.version || h.ty != want.pt || h.count != want.count || h.subtype != want.count || h.length != want.announced || (has_padding_accessor && h.padding != want_pad) {
        l.violation(format!("header-accessor-wrong:{}", who), || hex_short(s), || format!("accessors say {:?}, header says {:?} padding {:?}", h, want, want_pad));
    }
}

/// The guarantees of the generic parser for a packet it returned for the bytes `s`.
fn judge_generic(l: &mut Local, who: &str, s: &[u8], h: &HeaderObs, variant: Option<u8>) {
    let byte1 = s.get(1).copied().unwrap_or(0);
    match variant {
        Some(pt) => {
            let tp = TP::from_pt(pt).unwrap();
            let d = read::framing_defects(s, Some(pt), tp.min());
            if byte1 != pt {
                l.violation(format!("dispatch-wrong-variant:{}", who), || hex_short(s), || format!("packet type byte {} parsed as variant of type {}", byte1, pt));
            } else if !d.is_empty() {
                l.violation(format!("ill-framed-accepted:{}->{}:{}", who, tp.name(), d[0]), || hex_short(s), || format!("{} accepted although: {:?}", who, d));
            } else {
                check_header_obs(l, who, s, h, true);
            }
        }
        None => {
            let d = read::framing_defects(s, None, 4);
            let d: Vec<_> = d.into_iter().filter(|x| *x != "padding bit with a zero count").collect();
            if TP::from_pt(byte1).is_some() {
                l.violation(format!("dispatch-wrong-variant:{}", who), || hex_short(s), || format!("packet type byte {} yielded the Unknown variant", byte1));
            } else if !d.is_empty() {
                l.violation(format!("ill-framed-accepted:{}->Unknown:{}", who, d[0]), || hex_short(s), || format!("{} accepted although: {:?}", who, d));
            } else {
                check_header_obs(l, &format!("{}(Unknown)", who), s, h, false);
            }
        }
    }
}

pub fn c08(ctx: &mut Ctx) {
    ctx.rule = "every string of the framing spaces is fed to the 7 typed parsers, Packet::parse, Unknown::parse and (when the length chain tiles it) Compound::parse + iteration, each yielded packet judged against its own tile; whenever one accepts, the framing conditions are evaluated by the reference header reader and the header accessors compared; non-trivial = accepted by at least one parser, distinct by fingerprint of the string".into();
    byte_bounds(ctx);
    let spaces = framing_spaces(ctx.tier);
    run_bytes(ctx, spaces, |s, l| {
        let mut accepted = false;
        for tp in TPS {
            l.transitions += 1;
            match guard::catch(|| tp.parse_header(s)) {
                Err(pi) => l.subject_panic(&format!("parse:{}", tp.name()), &pi, || hex_short(s)),
                Ok(Err(_)) => {}
                Ok(Ok(h)) => {
                    accepted = true;
                    l.hit(tp.accept_bucket());
                    l.validated += 1;
                    let d = read::framing_defects(s, Some(tp.pt()), tp.min());
                    if !d.is_empty() {
                        l.violation(format!("ill-framed-accepted:{}:{}", tp.name(), d[0]), || hex_short(s), || format!("{}::parse accepted although: {:?}", tp.name(), d));
                    } else {
                        check_header_obs(l, tp.name(), s, &h, true);
                    }
                }
            }
        }
        l.transitions += 1;
        match guard::catch(|| Packet::parse(s).map(|p| (packet_header(&p), packet_variant_pt(&p)))) {
            Err(pi) => l.subject_panic("parse:Packet", &pi, || hex_short(s)),
            Ok(Err(_)) => {}
            Ok(Ok((h, variant))) => {
                accepted = true;
                l.hit("accepted:Packet");
                l.validated += 1;
                judge_generic(l, "Packet", s, &h, variant);
            }
        }
        // the generic parser's guarantees also hold for every packet a compound iteration hands out: each is
        // judged against its own tile of the datagram
        if let Some(tiles) = read::tile(s) {
            l.transitions += 1;
            let items = guard::catch(|| match Compound::parse(s) {
                Err(_) => Vec::new(),
                Ok(c) => c.take(tiles.len() + 1).map(|r| r.ok().map(|p| (packet_header(&p), packet_variant_pt(&p)))).collect::<Vec<_>>(),
            });
            match items {
                Err(pi) => l.subject_panic("parse:Compound", &pi, || hex_short(s)),
                Ok(items) => {
                    for (i, it) in items.into_iter().enumerate() {
                        if let (Some((h, variant)), Some(&(a, b))) = (it, tiles.get(i)) {
                            l.hit("accepted:Compound::next");
                            l.validated += 1;
                            judge_generic(l, "Compound::next", &s[a..b], &h, variant);
                        }
                    }
                }
            }
        }
        // third-party typed parsers built on the public helper are typed parsers too (6 type numbers x 4 minimum sizes)
        if s.len() <= 64 {
            for &pt in crate::subject::ext::EXT_PTS.iter() {
                for &min in crate::subject::ext::EXT_MINS.iter() {
                    l.transitions += 1;
                    match guard::catch(|| crate::subject::ext::ext_check(pt, min, s)) {
                        Err(pi) => l.subject_panic("parse:third-party", &pi, || hex_short(s)),
                        Ok(Err(_)) => {}
                        Ok(Ok(())) => {
                            accepted = true;
                            l.hit("accepted:third-party parser");
                            l.validated += 1;
                            let d = read::framing_defects(s, Some(pt), min);
                            if !d.is_empty() {
                                l.violation(format!("ill-framed-accepted:third-party:{}", d[0]), || format!("Ext<{},{}> {}", pt, min, hex_short(s)), || format!("{:?}", d));
                            }
                        }
                    }
                }
            }
        }
        l.transitions += 1;
        match guard::catch(|| Unknown::parse(s).map(|p| HeaderObs { version: p.version(), ty: p.type_(), count: p.count(), subtype: p.subtype(), length: p.length(), padding: None })) {
            Err(pi) => l.subject_panic("parse:Unknown", &pi, || hex_short(s)),
            Ok(Err(_)) => {}
            Ok(Ok(h)) => {
                accepted = true;
                l.hit("accepted:Unknown");
                l.validated += 1;
                let d: Vec<_> = read::framing_defects(s, None, 4).into_iter().filter(|x| *x != "padding bit with a zero count").collect();
                if !d.is_empty() {
                    l.violation(format!("ill-framed-accepted:Unknown:{}", d[0]), || hex_short(s), || format!("Unknown::parse accepted although: {:?}", d));
                } else {
                    check_header_obs(l, "Unknown", s, &h, false);
                }
            }
        }
        if accepted {
            l.nontrivial(fp_bytes(s));
        }
    });
    for tp in TPS {
        ctx.require_hit(tp.accept_bucket());
    }
    ctx.require_hit("accepted:Packet");
    ctx.require_hit("accepted:Unknown");
    if !super::common::is_frames_child() {
        super::common::unoptimised_build_pass(ctx, "the long inputs of the framing spaces (S6 giants, S6b giant runs and chunks, long tile chains)");
    }
}

// ---------------------------------------------------------------------------------------------
// C18

fn err_bucket(e: &RtcpParseError) -> &'static str {
    match e {
        RtcpParseError::UnsupportedVersion(_) => "err:UnsupportedVersion",
        RtcpParseError::Truncated { .. } => "err:Truncated",
        RtcpParseError::TooLarge { .. } => "err:TooLarge",
        RtcpParseError::InvalidPadding => "err:InvalidPadding",
        RtcpParseError::SdesValueTooLarge { .. } => "err:SdesValueTooLarge",
        RtcpParseError::SdesPrivContentTruncated { .. } => "err:SdesPrivContentTruncated",
        RtcpParseError::SdesPrivPrefixTooLarge { .. } => "err:SdesPrivPrefixTooLarge",
        RtcpParseError::WrongImplementation => "err:WrongImplementation",
        RtcpParseError::PacketTypeMismatch { .. } => "err:PacketTypeMismatch",
        // a variant this harness does not know (the enum is the subject's to extend)
        #[allow(unreachable_patterns)]
        _ => "err:(a variant unknown to the harness)",
    }
}

/// `own_pt`: the parser's own packet type (None for Unknown / Compound / non-packet parsers);
/// `min`: its minimum size when the "shorter than the minimum" must-case applies;
/// `header_checked`: whether the input is a packet whose header the error may talk about.
fn judge_error(l: &mut Local, who: &str, s: &[u8], e: &RtcpParseError, own_pt: Option<u8>, min: Option<usize>, header_checked: bool) {
    l.hit(err_bucket(e));
    l.validated += 1;
    let h = read::header(s);
    let mut wrong: Option<String> = None;
    match e {
        RtcpParseError::UnsupportedVersion(v) => {
            if header_checked {
                match h {
                    Some(h) if h.version == *v && *v != 2 => {}
                    _ => wrong = Some(format!("the input's version is {:?}", h.map(|h| h.version))),
                }
            }
        }
        RtcpParseError::PacketTypeMismatch { actual, requested } => {
            if header_checked {
                let ok = h.map(|h| h.pt == *actual).unwrap_or(false) && Some(*requested) == own_pt && actual != requested;
                if !ok {
                    wrong = Some(format!("the input's type is {:?}, the parser's is {:?}", h.map(|h| h.pt), own_pt));
                }
            }
        }
        RtcpParseError::Truncated { expected, actual } => {
            if expected <= actual {
                wrong = Some("Truncated must have expected > actual".into());
            }
        }
        RtcpParseError::TooLarge { expected, actual } => {
            if expected >= actual {
                wrong = Some("TooLarge must have expected < actual".into());
            }
        }
        _ => {}
    }
    if wrong.is_none() {
        if let Some(min) = min {
            if s.len() < min {
                if *e != (RtcpParseError::Truncated { expected: min, actual: s.len() }) {
                    wrong = Some(format!("an input shorter than the minimum must be Truncated{{expected: {}, actual: {}}}", min, s.len()));
                }
            } else if let Some(h) = h {
                let type_ok = own_pt.map(|p| p == h.pt).unwrap_or(true);
                if h.version == 2 && type_ok && h.announced != s.len() {
                    let want = if h.announced > s.len() { RtcpParseError::Truncated { expected: h.announced, actual: s.len() } } else { RtcpParseError::TooLarge { expected: h.announced, actual: s.len() } };
                    if *e != want {
                        wrong = Some(format!("length field announces {} bytes, input has {}: must be {:?}", h.announced, s.len(), want));
                    }
                }
            }
        }
    }
    if let Some(w) = wrong {
        l.violation(format!("untruthful-error:{}:{}", who, &err_bucket(e)[4..]), || hex_short(s), || format!("{:?} — {}", e, w));
    }
}

pub fn c18(ctx: &mut Ctx) {
    ctx.rule = "every string of the framing spaces is fed to the 7 typed parsers, Packet::parse, Unknown::parse, Compound::parse (+iteration), ReportBlock::parse and the 5 FCI parsers; every Err is compared with facts read from the input by the reference header reader; non-trivial = at least one parser returned an error, distinct by fingerprint of the string".into();
    byte_bounds(ctx);
    let mut spaces = framing_spaces(ctx.tier);
    spaces.push(bytes::fci_raw_space());
    spaces.push(bytes::sdes_bodies_space(2, vec![0x00, 0x01, 0x02, 0x03, 0x04, 0x08, 0x09, 0xFF], vec![1]));
    run_bytes(ctx, spaces, |s, l| {
        let mut any_err = false;
        for tp in TPS {
            l.transitions += 1;
            match guard::catch(|| tp.parse_header(s)) {
                Err(pi) => l.subject_panic(&format!("parse:{}", tp.name()), &pi, || hex_short(s)),
                Ok(Ok(_)) => {}
                Ok(Err(e)) => {
                    any_err = true;
                    judge_error(l, tp.name(), s, &e, Some(tp.pt()), Some(tp.min()), true);
                }
            }
        }
        l.transitions += 1;
        match guard::catch(|| Packet::parse(s).map(|_| ())) {
            Err(pi) => l.subject_panic("parse:Packet", &pi, || hex_short(s)),
            Ok(Ok(())) => {}
            Ok(Err(e)) => {
                any_err = true;
                // the generic parser's own minimum is the 4-byte header; beyond that it speaks for
                // the typed parser it dispatches to
                let byte1 = s.get(1).copied();
                let tp = byte1.and_then(TP::from_pt);
                let (own, min) = if s.len() < 4 { (None, Some(4)) } else { (tp.map(|t| t.pt()), Some(tp.map(|t| t.min()).unwrap_or(4))) };
                judge_error(l, "Packet", s, &e, own, min, true);
            }
        }
        l.transitions += 1;
        match guard::catch(|| Unknown::parse(s).map(|_| ())) {
            Err(pi) => l.subject_panic("parse:Unknown", &pi, || hex_short(s)),
            Ok(Ok(())) => {}
            Ok(Err(e)) => {
                any_err = true;
                judge_error(l, "Unknown", s, &e, None, Some(4), true);
            }
        }
        l.transitions += 1;
        match guard::catch(|| match Compound::parse(s) {
            Err(e) => vec![(None, e)],
            Ok(c) => c.take(s.len() / 4 + 2).enumerate().filter_map(|(i, r)| r.err().map(|e| (Some(i), e))).collect(),
        }) {
            Err(pi) => l.subject_panic("parse:Compound", &pi, || hex_short(s)),
            Ok(errs) => {
                let tiles = read::tile(s);
                for (pos, e) in errs {
                    any_err = true;
                    match pos {
                        // the compound's own errors talk about the whole datagram: sizes only
                        None => judge_error(l, "Compound", s, &e, None, None, false),
                        Some(i) => {
                            l.hit("err:from-compound-iteration");
                            // an error yielded by the iteration is about the packet that failed to parse, i.e. the
                            // i-th tile: it is judged against that tile exactly as the generic parser's error would be
                            match tiles.as_ref().and_then(|t| t.get(i)) {
                                Some(&(a, b)) => {
                                    let tile = &s[a..b];
                                    let (own, min) = match tile.get(1) {
                                        Some(&pt) => match TPS.iter().find(|t| t.pt() == pt) {
                                            Some(t) => (Some(pt), t.min()),
                                            None => (None, 4),
                                        },
                                        None => (None, 4),
                                    };
                                    judge_error(l, "Compound::next", tile, &e, own, Some(min), true);
                                }
                                None => match &e {
                                    RtcpParseError::Truncated { expected, actual } if expected <= actual => {
                                        l.violation("untruthful-error:Compound::next:Truncated", || hex_short(s), || format!("{:?}", e))
                                    }
                                    RtcpParseError::TooLarge { expected, actual } if expected >= actual => {
                                        l.violation("untruthful-error:Compound::next:TooLarge", || hex_short(s), || format!("{:?}", e))
                                    }
                                    _ => {}
                                },
                            }
                        }
                    }
                }
            }
        }
        // errors of the conversions between packet types (by reference, by value, try_as): a mismatch must name the
        // packet's own type as `actual` and the target's as `requested`
        if let Ok(p) = Packet::parse(s) {
            if let Some(v) = packet_variant_pt(&p) {
                macro_rules! conv_err {
                    ($T:ty, $pt:expr, $name:expr) => {
                        if v != $pt {
                            l.transitions += 3;
                            let r = guard::catch(|| {
                                let by_ref = <$T>::try_from(&p).err();
                                let by_as = p.try_as::<$T>().err();
                                let by_val = Packet::parse(s).ok().and_then(|q| <$T>::try_from(q).err());
                                [("TryFrom<&Packet>", by_ref), ("Packet::try_as", by_as), ("TryFrom<Packet>", by_val)]
                            });
                            match r {
                                Err(pi) => l.subject_panic(concat!("conversion:", $name), &pi, || hex_short(s)),
                                Ok(errs) => {
                                    for (how, e) in errs {
                                        match e {
                                            None => l.violation(concat!("conversion-to-another-type-succeeds:", $name), || hex_short(s), || format!("{} from a packet of type {}", how, v)),
                                            Some(e) => {
                                                any_err = true;
                                                judge_error(l, concat!("conversion:", $name), s, &e, Some($pt), None, true);
                                            }
                                        }
                                    }
                                }
                            }
                        }
                    };
                }
                conv_err!(SenderReport, 200, "SenderReport");
                conv_err!(ReceiverReport, 201, "ReceiverReport");
                conv_err!(Sdes, 202, "Sdes");
                conv_err!(Bye, 203, "Bye");
                conv_err!(App, 204, "App");
                conv_err!(TransportFeedback, 205, "TransportFeedback");
                conv_err!(PayloadFeedback, 206, "PayloadFeedback");
            }
        }
        // the same for a generic packet that a caller made from an unknown packet over these bytes (any type number):
        // its conversions are the typed parsers' verdicts, so their errors are judged like the typed parsers' errors
        if let Ok(u) = Unknown::parse(s) {
            let wrapped = Packet::from(u);
            macro_rules! wconv_err {
                ($T:ty, $tp:expr) => {
                    l.transitions += 6;
                    // by reference, with try_as and by value (a moved value takes its own `TryFrom` impls), from the
                    // wrapped and from the bare unknown packet
                    match guard::catch(|| {
                        [
                            <$T>::try_from(&wrapped).err(),
                            wrapped.try_as::<$T>().err(),
                            <$T>::try_from(Packet::from(Unknown::parse(s).unwrap())).err(),
                            Unknown::parse(s).ok().and_then(|u| <$T>::try_from(&u).err()),
                            Unknown::parse(s).ok().and_then(|u| u.try_as::<$T>().err()),
                            Unknown::parse(s).ok().and_then(|u| <$T>::try_from(u).err()),
                        ]
                    }) {
                        Err(pi) => l.subject_panic("conversion:from-wrapped-unknown", &pi, || hex_short(s)),
                        Ok(errs) => {
                            for e in errs.into_iter().flatten() {
                                any_err = true;
                                judge_error(l, "conversion-from-wrapped-unknown", s, &e, Some($tp.pt()), Some($tp.min()), true);
                            }
                        }
                    }
                };
            }
            wconv_err!(SenderReport, TP::Sr);
            wconv_err!(ReceiverReport, TP::Rr);
            wconv_err!(Sdes, TP::Sdes);
            wconv_err!(Bye, TP::Bye);
            wconv_err!(App, TP::App);
            wconv_err!(TransportFeedback, TP::Tfb);
            wconv_err!(PayloadFeedback, TP::Pfb);
        }
        l.transitions += 1;
        match guard::catch(|| ReportBlock::parse(s).map(|_| ())) {
            Err(pi) => l.subject_panic("parse:ReportBlock", &pi, || hex_short(s)),
            Ok(Ok(())) => {}
            Ok(Err(e)) => {
                any_err = true;
                judge_error(l, "ReportBlock", s, &e, None, None, false);
                let want = if s.len() < 24 { RtcpParseError::Truncated { expected: 24, actual: s.len() } } else { RtcpParseError::TooLarge { expected: 24, actual: s.len() } };
                if e != want {
                    l.violation("untruthful-error:ReportBlock:size", || hex_short(s), || format!("{:?}, a report block is 24 bytes and the input {}", e, s.len()));
                }
            }
        }
        macro_rules! fci {
            ($F:ty, $name:expr) => {
                l.transitions += 1;
                match guard::catch(|| <$F as FciParser>::parse(s).map(|_| ())) {
                    Err(pi) => l.subject_panic(concat!("parse:", $name), &pi, || hex_short(s)),
                    Ok(Ok(())) => {}
                    Ok(Err(e)) => {
                        any_err = true;
                        judge_error(l, $name, s, &e, None, None, false);
                    }
                }
            };
        }
        fci!(Nack, "Nack");
        fci!(Pli, "Pli");
        fci!(Sli, "Sli");
        fci!(Rpsi, "Rpsi");
        fci!(Fir, "Fir");
        if any_err {
            l.nontrivial(fp_bytes(s));
        }
    });
    ctx.require_hit("err:UnsupportedVersion");
    ctx.require_hit("err:Truncated");
    ctx.require_hit("err:TooLarge");
    ctx.require_hit("err:PacketTypeMismatch");
    ctx.require_hit("err:InvalidPadding");
    if !super::common::is_frames_child() {
        super::common::unoptimised_build_pass(ctx, "the long inputs of the framing spaces (S6 giants, S6b giant runs and chunks, long tile chains)");
    }
}

// ---------------------------------------------------------------------------------------------
// C12

fn same_packet(a: &Packet, b: &Packet) -> bool {
    match (a, b) {
        (Packet::App(x), Packet::App(y)) => x == y,
        (Packet::Bye(x), Packet::Bye(y)) => x == y,
        (Packet::Rr(x), Packet::Rr(y)) => x == y,
        (Packet::Sdes(x), Packet::Sdes(y)) => x == y,
        (Packet::Sr(x), Packet::Sr(y)) => x == y,
        (Packet::TransportFeedback(x), Packet::TransportFeedback(y)) => x == y,
        (Packet::PayloadFeedback(x), Packet::PayloadFeedback(y)) => x == y,
        (Packet::Unknown(x), Packet::Unknown(y)) => x == y,
        _ => false,
    }
}

pub fn packet_results_equal(a: &Result<Packet, RtcpParseError>, b: &Result<Packet, RtcpParseError>) -> bool {
    match (a, b) {
        (Ok(x), Ok(y)) => same_packet(x, y),
        (Err(x), Err(y)) => x == y,
        _ => false,
    }
}

pub fn c12(ctx: &mut Ctx) {
    ctx.rule = "every string of the framing spaces with at least 4 bytes: Packet::parse vs the typed parser named by byte 1 (outcome and payload), Unknown exposes the input unchanged (pointer identity), and on every accepted Packet / Unknown the full conversion matrix: 8 source variants x 7 target types x {TryFrom<&Packet>, TryFrom<Packet>, Packet::try_as, Unknown::try_as, TryFrom<Unknown>, TryFrom<&Unknown>} plus From<T> for Packet; non-trivial = Packet::parse accepted, distinct by fingerprint".into();
    byte_bounds(ctx);
    let spaces = framing_spaces(ctx.tier);
    run_bytes(ctx, spaces, |s, l| {
        if s.len() < 4 {
            l.hit("shorter than a header (outside the property)");
            return;
        }
        let r = guard::catch(|| c12_case(s, l));
        if let Err(pi) = r {
            l.subject_panic("dispatch-or-conversion", &pi, || hex_short(s));
        }
        // the generic parser is also reached through compound iteration: whatever stands before or after a tile,
        // the item handed out for it is what the generic parser (hence the typed parser) says about that tile
        if let Some(tiles) = read::tile(s) {
            if tiles.len() >= 2 {
                l.transitions += 1;
                let r = guard::catch(|| {
                    if let Ok(c) = Compound::parse(s) {
                        for (i, got) in c.take(tiles.len()).enumerate() {
                            let (a, b) = tiles[i];
                            let want = Packet::parse(&s[a..b]);
                            l.validated += 1;
                            if !packet_results_equal(&got, &want) {
                                l.violation("dispatch-disagrees:inside-a-compound", || hex_short(s), || format!("tile {} ({}..{}): the compound hands out {:?}, Packet::parse of the tile gives {:?}", i, a, b, got, want));
                                return;
                            }
                            if want.is_err() {
                                return;
                            }
                        }
                        l.hit("dispatch-agrees:inside-a-compound");
                    }
                });
                if let Err(pi) = r {
                    l.subject_panic("dispatch:compound", &pi, || hex_short(s));
                }
            }
        }
    });
    ctx.require_hit("dispatch-agrees:ok");
    ctx.require_hit("dispatch-agrees:err");
    ctx.require_hit("conversion:variant-matches");
    ctx.require_hit("conversion:other-known-variant");
    ctx.require_hit("conversion:from-unknown");
    ctx.require_hit("unknown-exposes-input");
    ctx.require_hit("well-framed unknown type accepted");
    ctx.require_hit("dispatch-agrees:inside-a-compound");
    if !super::common::is_frames_child() {
        super::common::unoptimised_build_pass(ctx, "the long inputs of the framing spaces (S6 giants, S6b giant runs and chunks, long tile chains)");
    }
}

fn c12_case(s: &[u8], l: &mut Local) {
    let byte1 = s[1];
    l.transitions += 2;
    let generic = Packet::parse(s);
    macro_rules! typed_as_packet {
        ($T:ty) => {
            <$T>::parse(s).map(Packet::from)
        };
    }
    let typed: Result<Packet, RtcpParseError> = match byte1 {
        200 => typed_as_packet!(SenderReport),
        201 => typed_as_packet!(ReceiverReport),
        202 => typed_as_packet!(Sdes),
        203 => typed_as_packet!(Bye),
        204 => typed_as_packet!(App),
        205 => typed_as_packet!(TransportFeedback),
        206 => typed_as_packet!(PayloadFeedback),
        _ => Unknown::parse(s).map(Packet::from),
    };
    l.validated += 1;
    if !packet_results_equal(&generic, &typed) {
        l.violation(format!("dispatch-disagrees:type-{}", if TP::from_pt(byte1).is_some() { "known" } else { "unknown" }), || hex_short(s), || format!("Packet::parse = {:?}, typed parser = {:?}", generic, typed));
        return;
    }
    match &generic {
        Ok(_) => l.hit("dispatch-agrees:ok"),
        Err(_) => l.hit("dispatch-agrees:err"),
    }
    // "unrecognised types yield an unknown packet that exposes the input unchanged": a version-2 string of an
    // unrecognised type whose length field matches its length is yielded as Unknown. The padding bit and the last
    // byte are not conditions: C08 gives the unknown-packet parser the size, version and length-field conditions
    // only - the payload of a type the crate does not know, including what its last byte means, is opaque to it
    if TP::from_pt(byte1).is_none() && read::unknown_framing_defects(s).is_empty() {
        match &generic {
            Ok(Packet::Unknown(_)) => l.hit("well-framed unknown type accepted"),
            other => {
                l.violation("well-framed-unknown-type-not-yielded-as-Unknown", || hex_short(s), || format!("Packet::parse = {:?}", other.as_ref().map(|p| packet_variant_pt(p))));
                return;
            }
        }
    }
    if let Ok(Packet::Unknown(u)) = &generic {
        let d = u.data();
        if d.as_ptr() != s.as_ptr() || d.len() != s.len() {
            l.violation("unknown-does-not-expose-input", || hex_short(s), || format!("data() is {} bytes at offset {:?}", d.len(), (d.as_ptr() as isize).wrapping_sub(s.as_ptr() as isize)));
        } else {
            l.hit("unknown-exposes-input");
        }
    }
    // conversions from the generic packet
    if let Ok(p) = &generic {
        l.nontrivial(fp_bytes(s));
        let variant = packet_variant_pt(p);
        macro_rules! conv {
            ($T:ty, $pt:expr) => {{
                l.transitions += 4;
                let direct = <$T>::parse(s);
                let want: Result<$T, RtcpParseError> = match variant {
                    Some(v) if v == $pt => {
                        l.hit("conversion:variant-matches");
                        direct
                    }
                    Some(v) => {
                        l.hit("conversion:other-known-variant");
                        Err(RtcpParseError::PacketTypeMismatch { actual: v, requested: $pt })
                    }
                    None => {
                        l.hit("conversion:from-unknown");
                        direct
                    }
                };
                let by_ref = <$T>::try_from(p);
                let by_try_as = p.try_as::<$T>();
                let by_val = <$T>::try_from(Packet::parse(s).unwrap());
                l.validated += 3;
                for (how, got) in [("TryFrom<&Packet>", &by_ref), ("Packet::try_as", &by_try_as), ("TryFrom<Packet>", &by_val)] {
                    if *got != want {
                        l.violation(format!("conversion-wrong:{}:{}", how, stringify!($T)), || hex_short(s), || format!("{} -> {}: got {:?}, expected {:?}", how, stringify!($T), got, want));
                    }
                }
                // independently of the types' own `==` (the comparison above): a successful conversion reads, accessor
                // by accessor, like the packet it was made from
                if s.len() <= 4096 && variant == Some($pt) {
                    let src = observe::obs_packet(p, s.len()).map_err(|e| format!("{:?}", e));
                    for (how, got) in [("TryFrom<&Packet>", &by_ref), ("Packet::try_as", &by_try_as), ("TryFrom<Packet>", &by_val)] {
                        if let Ok(x) = got {
                            let conv = observe::obs_packet(&Packet::from(x.clone()), s.len()).map_err(|e| format!("{:?}", e));
                            if conv != src {
                                l.violation(format!("conversion-reads-differently:{}:{}", how, stringify!($T)), || hex_short(s), || format!("{} -> {}: the converted value reads {:?}, the source {:?}", how, stringify!($T), conv, src));
                            }
                        }
                    }
                }
                if let (Ok(v), Some(vp)) = (by_val, variant) {
                    // From<T> for Packet puts the value back into its own variant
                    let back = Packet::from(v);
                    if packet_variant_pt(&back) != Some(vp) || !same_packet(&back, p) {
                        l.violation(format!("from-typed-wrong:{}", stringify!($T)), || hex_short(s), || format!("{:?}", back));
                    }
                }
            }};
        }
        conv!(SenderReport, 200);
        conv!(ReceiverReport, 201);
        conv!(Sdes, 202);
        conv!(Bye, 203);
        conv!(App, 204);
        conv!(TransportFeedback, 205);
        conv!(PayloadFeedback, 206);
    }
    // conversions from an Unknown built over the same bytes (any packet type)
    l.transitions += 1;
    if let Ok(u) = Unknown::parse(s) {
        macro_rules! uconv {
            ($T:ty) => {{
                l.transitions += 4;
                let want = <$T>::parse(s);
                let by_ref = <$T>::try_from(&u);
                let by_try_as = u.try_as::<$T>();
                let by_val = <$T>::try_from(Unknown::parse(s).unwrap());
                l.validated += 3;
                for (how, got) in [("TryFrom<&Unknown>", &by_ref), ("Unknown::try_as", &by_try_as), ("TryFrom<Unknown>", &by_val)] {
                    if *got != want {
                        l.violation(format!("conversion-wrong:{}:{}", how, stringify!($T)), || hex_short(s), || format!("{} -> {}: got {:?}, expected {:?}", how, stringify!($T), got, want));
                    }
                }
            }};
        }
        uconv!(SenderReport);
        uconv!(ReceiverReport);
        uconv!(Sdes);
        uconv!(Bye);
        uconv!(App);
        uconv!(TransportFeedback);
        uconv!(PayloadFeedback);
        let back = Packet::from(Unknown::parse(s).unwrap());
        if !matches!(&back, Packet::Unknown(x) if *x == u) {
            l.violation("from-typed-wrong:Unknown", || hex_short(s), || format!("{:?}", back));
        }
        // ... and the three-step chain Unknown::parse -> Packet::from -> conversion: a generic packet that holds an
        // unknown packet converts exactly as the typed parser parses those bytes - also when the bytes carry a
        // known type number (the generic parser never builds such a value, but a caller can)
        macro_rules! wconv {
            ($T:ty) => {{
                l.transitions += 3;
                let want = <$T>::parse(s);
                let by_ref = <$T>::try_from(&back);
                let by_try_as = back.try_as::<$T>();
                let by_val = <$T>::try_from(Packet::from(Unknown::parse(s).unwrap()));
                l.validated += 3;
                for (how, got) in [("TryFrom<&Packet(Unknown)>", &by_ref), ("Packet(Unknown)::try_as", &by_try_as), ("TryFrom<Packet(Unknown)>", &by_val)] {
                    if *got != want {
                        l.violation(format!("conversion-wrong:{}:{}", how, stringify!($T)), || hex_short(s), || format!("{} -> {}: got {:?}, expected {:?}", how, stringify!($T), got, want));
                    }
                }
            }};
        }
        wconv!(SenderReport);
        wconv!(ReceiverReport);
        wconv!(Sdes);
        wconv!(Bye);
        wconv!(App);
        wconv!(TransportFeedback);
        wconv!(PayloadFeedback);
    }
}
