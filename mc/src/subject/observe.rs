//! Real parsed views -> abstract values, with step-capped iterators.

use crate::refmodel::model::*;
use rtcp_types::prelude::*;
use rtcp_types::*;

#[derive(Debug, PartialEq, Eq)]
pub enum ObsErr {
    Parse(RtcpParseError),
    Fci(RtcpParseError),
    /// an iterator yielded more items than the input can hold
    Runaway(&'static str),
    UnknownFci { pt: u8, fmt: u8 },
    Other(String),
}

/// Upper bound on the number of items any iterator over `len` bytes may yield.
pub fn step_bound(len: usize) -> usize {
    5 * len + 8
}

pub fn collect_capped<T>(it: impl Iterator<Item = T>, len: usize, what: &'static str) -> Result<Vec<T>, ObsErr> {
    let cap = step_bound(len);
    let mut v = Vec::new();
    for x in it {
        if v.len() >= cap {
            return Err(ObsErr::Runaway(what));
        }
        v.push(x);
    }
    Ok(v)
}

pub fn obs_rb(rb: &ReportBlock) -> Rb {
    Rb {
        ssrc: rb.ssrc(),
        fraction: rb.fraction_lost(),
        cum: rb.cumulative_lost(),
        ext_seq: rb.extended_sequence_number(),
        jitter: rb.interarrival_jitter(),
        lsr: rb.last_sender_report_timestamp(),
        dlsr: rb.delay_since_last_sender_report_timestamp(),
    }
}

pub fn obs_item(it: &SdesItem) -> Item {
    if it.type_() == SdesItem::PRIV {
        Item { ty: it.type_(), prefix: it.priv_prefix().to_vec(), value: it.value().to_vec() }
    } else {
        Item { ty: it.type_(), prefix: Vec::new(), value: it.value().to_vec() }
    }
}

/// The derived accessors of an SDES item must agree with the primary ones: `length()` is the item's length byte
/// (the bytes after the two-byte item header), `get_value_string()` is `value()` decoded, `priv_prefix_len()` is
/// the length of `priv_prefix()`.
pub fn item_derived_accessors(it: &SdesItem) -> Result<(), ObsErr> {
    let value = it.value();
    let body = if it.type_() == SdesItem::PRIV {
        let prefix = it.priv_prefix();
        if it.priv_prefix_len() as usize != prefix.len() {
            return Err(ObsErr::Other(format!("SdesItem::priv_prefix_len() = {} but priv_prefix() has {} bytes", it.priv_prefix_len(), prefix.len())));
        }
        1 + prefix.len() + value.len()
    } else {
        value.len()
    };
    if it.length() != body {
        return Err(ObsErr::Other(format!("SdesItem::length() = {} but the item's content is {} bytes", it.length(), body)));
    }
    if it.get_value_string().ok() != String::from_utf8(value.to_vec()).ok() {
        return Err(ObsErr::Other(format!("SdesItem::get_value_string() = {:?} but value() = {:x?}", it.get_value_string(), value)));
    }
    Ok(())
}

pub fn obs_chunks(s: &Sdes, len: usize) -> Result<Vec<Chunk>, ObsErr> {
    let mut out = Vec::new();
    for c in collect_capped(s.chunks(), len, "Sdes::chunks")? {
        let items = collect_capped(c.items(), len, "SdesChunk::items")?;
        for it in &items {
            item_derived_accessors(it)?;
        }
        out.push(Chunk { ssrc: c.ssrc(), items: items.iter().map(|i| obs_item(i)).collect() });
    }
    Ok(out)
}

/// Integers of a `Debug` rendering in order of appearance (digit runs not glued to an identifier).
pub fn debug_ints(s: &str) -> Vec<u64> {
    let b = s.as_bytes();
    let mut out = Vec::new();
    let mut i = 0;
    while i < b.len() {
        if b[i].is_ascii_digit() {
            let glued = i > 0 && (b[i - 1].is_ascii_alphanumeric() || b[i - 1] == b'_');
            let st = i;
            while i < b.len() && b[i].is_ascii_digit() {
                i += 1;
            }
            if !glued {
                if let Ok(v) = s[st..i].parse::<u64>() {
                    out.push(v);
                }
            }
        } else {
            i += 1;
        }
    }
    out
}

/// `name: integer` pairs of a `Debug` rendering (decimal or 0x-hex values), in order of appearance.
pub fn debug_named_ints(s: &str) -> Vec<(String, u64)> {
    let b = s.as_bytes();
    let mut out = Vec::new();
    let mut i = 0;
    while i < b.len() {
        if b[i].is_ascii_alphabetic() || b[i] == b'_' {
            let st = i;
            while i < b.len() && (b[i].is_ascii_alphanumeric() || b[i] == b'_') {
                i += 1;
            }
            let name = &s[st..i];
            let mut j = i;
            while j < b.len() && b[j] == b' ' {
                j += 1;
            }
            if j < b.len() && b[j] == b':' {
                j += 1;
                while j < b.len() && b[j] == b' ' {
                    j += 1;
                }
                let vs = j;
                if j + 1 < b.len() && b[j] == b'0' && (b[j + 1] == b'x' || b[j + 1] == b'X') {
                    j += 2;
                    let hs = j;
                    while j < b.len() && (b[j].is_ascii_hexdigit() || b[j] == b'_') {
                        j += 1;
                    }
                    if let Ok(v) = u64::from_str_radix(&s[hs..j].replace('_', ""), 16) {
                        out.push((name.to_ascii_lowercase(), v));
                        i = j;
                    }
                } else {
                    while j < b.len() && b[j].is_ascii_digit() {
                        j += 1;
                    }
                    if j > vs {
                        if let Ok(v) = s[vs..j].parse::<u64>() {
                            out.push((name.to_ascii_lowercase(), v));
                            i = j;
                        }
                    }
                }
            }
        } else {
            i += 1;
        }
    }
    out
}

/// Read (first, number, picture id) from the `Debug` rendering of an SLI entry: by field name when the
/// rendering names its fields (so a reordering or renaming within the obvious vocabulary is harmless),
/// else by position when it shows exactly three integers. `None` = this rendering cannot be read.
pub fn sli_from_debug(txt: &str) -> Option<(u16, u16, u8)> {
    let named = debug_named_ints(txt);
    let find = |keys: &[&str]| named.iter().find(|(n, _)| keys.iter().any(|k| n.contains(k))).map(|(_, v)| *v);
    let first = find(&["start", "first"]);
    let number = find(&["count", "number", "num", "len"]);
    let pic = find(&["pic"]);
    if let (Some(a), Some(n), Some(p)) = (first, number, pic) {
        return Some((a as u16, n as u16, p as u8));
    }
    let ints = debug_ints(txt);
    if ints.len() == 3 {
        return Some((ints[0] as u16, ints[1] as u16, ints[2] as u8));
    }
    None
}

pub fn obs_sli(s: &Sli, len: usize) -> Result<Vec<(u16, u16, u8)>, ObsErr> {
    let mut out = Vec::new();
    for e in collect_capped(s.lost_macroblocks(), len, "Sli::lost_macroblocks")? {
        let txt = format!("{:?}", e);
        match sli_from_debug(&txt) {
            Some(t) => out.push(t),
            None => crate::engine::run::machinery_failure(&format!("cannot read an SLI entry from its Debug rendering: {}", txt)),
        }
    }
    Ok(out)
}

pub fn obs_fir(f: &Fir, len: usize) -> Result<Vec<(u32, u8)>, ObsErr> {
    Ok(collect_capped(f.entries(), len, "Fir::entries")?.iter().map(|e| (e.ssrc(), e.sequence())).collect())
}

pub fn obs_nack(n: &Nack, len: usize) -> Result<Vec<u16>, ObsErr> {
    collect_capped(n.entries(), len, "Nack::entries")
}

pub fn obs_rpsi(r: &Rpsi) -> Fci {
    let (bytes, ign) = r.bit_string();
    Fci::Rpsi { pt: r.payload_type(), data: bytes.to_vec(), overrun: ign.min(255) as u8 }
}

/// Decode the FCI of a feedback packet with the FCI type its (kind, format) names.
pub fn obs_fci(kind: Kind, fmt: u8, len: usize, t: Option<&TransportFeedback>, p: Option<&PayloadFeedback>) -> Result<Fci, ObsErr> {
    macro_rules! get {
        ($F:ty) => {
            match (t, p) {
                (Some(t), _) => t.parse_fci::<$F>().map_err(ObsErr::Fci)?,
                (_, Some(p)) => p.parse_fci::<$F>().map_err(ObsErr::Fci)?,
                _ => return Err(ObsErr::Other("no packet".into())),
            }
        };
    }
    match (kind, fmt) {
        (Kind::Transport, 1) => Ok(Fci::Nack(obs_nack(&get!(Nack), len)?)),
        (Kind::Payload, 1) => {
            let _ = get!(Pli);
            Ok(Fci::Pli)
        }
        (Kind::Payload, 2) => Ok(Fci::Sli(obs_sli(&get!(Sli), len)?)),
        (Kind::Payload, 3) => Ok(obs_rpsi(&get!(Rpsi))),
        (Kind::Payload, 4) => Ok(Fci::Fir(obs_fir(&get!(Fir), len)?)),
        _ => Err(ObsErr::UnknownFci { pt: kind.pt(), fmt }),
    }
}

fn trim_nul(b: &[u8]) -> String {
    let mut e = b.len();
    while e > 0 && b[e - 1] == 0 {
        e -= 1;
    }
    String::from_utf8_lossy(&b[..e]).into_owned()
}

/// Abstract value of a parsed packet (what its accessors say).
pub fn obs_packet(p: &Packet, len: usize) -> Result<Pkt, ObsErr> {
    Ok(match p {
        Packet::Sr(sr) => Pkt::Sr {
            ssrc: sr.ssrc(),
            ntp: sr.ntp_timestamp(),
            rtp: sr.rtp_timestamp(),
            pc: sr.packet_count(),
            oc: sr.octet_count(),
            blocks: collect_capped(sr.report_blocks(), len, "SenderReport::report_blocks")?.iter().map(obs_rb).collect(),
            pad: sr.padding().unwrap_or(0),
        },
        Packet::Rr(rr) => Pkt::Rr {
            ssrc: rr.ssrc(),
            blocks: collect_capped(rr.report_blocks(), len, "ReceiverReport::report_blocks")?.iter().map(obs_rb).collect(),
            pad: rr.padding().unwrap_or(0),
        },
        Packet::Sdes(s) => Pkt::Sdes { chunks: obs_chunks(s, len)?, pad: s.padding().unwrap_or(0) },
        Packet::Bye(b) => Pkt::Bye {
            ssrcs: collect_capped(b.ssrcs(), len, "Bye::ssrcs")?,
            reason: match b.reason() {
                None => String::new(),
                Some(r) => String::from_utf8_lossy(r).into_owned(),
            },
            pad: b.padding().unwrap_or(0),
        },
        Packet::App(a) => Pkt::App { ssrc: a.ssrc(), subtype: a.subtype(), name: trim_nul(&a.name()), data: a.data().to_vec(), pad: a.padding().unwrap_or(0) },
        Packet::TransportFeedback(t) => Pkt::Fb {
            kind: Kind::Transport,
            sender: t.sender_ssrc(),
            media: t.media_ssrc(),
            fci: obs_fci(Kind::Transport, t.count(), len, Some(t), None)?,
            pad: t.padding().unwrap_or(0),
        },
        Packet::PayloadFeedback(t) => Pkt::Fb {
            kind: Kind::Payload,
            sender: t.sender_ssrc(),
            media: t.media_ssrc(),
            fci: obs_fci(Kind::Payload, t.count(), len, None, Some(t))?,
            pad: t.padding().unwrap_or(0),
        },
        Packet::Unknown(u) => {
            let d = u.data();
            let pad = if d[0] & 0x20 != 0 { *d.last().unwrap() } else { 0 };
            let end = d.len().saturating_sub(pad as usize).max(4);
            Pkt::Unknown { pt: u.type_(), count: u.count(), data: d[4..end].to_vec(), pad }
        }
    })
}

pub fn parse_and_observe(bytes: &[u8]) -> Result<Pkt, ObsErr> {
    let p = Packet::parse(bytes).map_err(ObsErr::Parse)?;
    let first = obs_packet(&p, bytes.len())?;
    if bytes.len() >= 4 && p.header_data() != [bytes[0], bytes[1], bytes[2], bytes[3]] {
        return Err(ObsErr::Other(format!("header_data() = {:x?}", p.header_data())));
    }
    if p.is_unknown() != matches!(p, Packet::Unknown(_)) {
        return Err(ObsErr::Other("Packet::is_unknown() disagrees with the variant".into()));
    }
    match &p {
        Packet::App(a) => {
            let raw: Vec<u8> = a.name().iter().copied().take_while(|&b| b != 0).collect();
            if a.get_name_string().ok() != String::from_utf8(raw).ok() {
                return Err(ObsErr::Other(format!("App::get_name_string() = {:?} but name() = {:x?}", a.get_name_string(), a.name())));
            }
        }
        Packet::Bye(b) => {
            let want = b.reason().map(|r| String::from_utf8(r.to_vec()).ok());
            if b.get_reason_string().map(|r| r.ok()) != want {
                return Err(ObsErr::Other(format!("Bye::get_reason_string() = {:?} but reason() = {:x?}", b.get_reason_string(), b.reason())));
            }
        }
        _ => {}
    }
    // the views are `&self`-pure: asking the same parsed value again must give the same answers
    let again = obs_packet(&p, bytes.len())?;
    if first != again {
        return Err(ObsErr::Other(format!("the accessors of one parsed value answer differently the second time: {} then {}", first.short(), again.short())));
    }
    // ... and neither formatting it, nor cloning it, nor comparing it, nor moving it changes what it says: the clone
    // (of the variants that are `Clone`) equals the original and reads the same; the original, moved to the heap
    // after all that, still reads the same
    let _ = crate::engine::run::fp_debug(&p);
    let cloned: Option<Packet> = match &p {
        Packet::App(x) => Some(Packet::App(x.clone())),
        Packet::Bye(x) => Some(Packet::Bye(x.clone())),
        Packet::Rr(x) => Some(Packet::Rr(x.clone())),
        Packet::Sr(x) => Some(Packet::Sr(x.clone())),
        Packet::Sdes(x) => Some(Packet::Sdes(x.clone())),
        Packet::TransportFeedback(x) => Some(Packet::TransportFeedback(x.clone())),
        Packet::PayloadFeedback(x) => Some(Packet::PayloadFeedback(x.clone())),
        Packet::Unknown(_) => None,
    };
    if let Some(c) = cloned {
        let eq = match (&c, &p) {
            (Packet::App(x), Packet::App(y)) => x == y,
            (Packet::Bye(x), Packet::Bye(y)) => x == y,
            (Packet::Rr(x), Packet::Rr(y)) => x == y,
            (Packet::Sr(x), Packet::Sr(y)) => x == y,
            (Packet::Sdes(x), Packet::Sdes(y)) => x == y,
            (Packet::TransportFeedback(x), Packet::TransportFeedback(y)) => x == y,
            (Packet::PayloadFeedback(x), Packet::PayloadFeedback(y)) => x == y,
            _ => false,
        };
        if !eq {
            return Err(ObsErr::Other("a clone of the parsed value is not equal (==) to the original".into()));
        }
        let oc = obs_packet(&c, bytes.len())?;
        if oc != first {
            return Err(ObsErr::Other(format!("a clone of the parsed value reads {} where the original reads {}", oc.short(), first.short())));
        }
    }
    let moved = Box::new(p);
    let om = obs_packet(&moved, bytes.len())?;
    if om != first {
        return Err(ObsErr::Other(format!("after being formatted, cloned, compared and moved the parsed value reads {} where it read {}", om.short(), first.short())));
    }
    Ok(first)
}

/// The expected observation for configuration `p` (what `parse_and_observe(encode(p))` must give).
pub fn expected_observation(p: &Pkt) -> Pkt {
    let mut q = crate::refmodel::read::normalise(p);
    match &mut q {
        Pkt::App { name, .. } => *name = trim_nul(name.as_bytes()),
        Pkt::Fb { fci: Fci::Sli(v), .. } => {
            for e in v.iter_mut() {
                *e = (e.0 & 0x1FFF, e.1 & 0x1FFF, e.2 & 0x3F);
            }
        }
        _ => {}
    }
    q
}

/// Equality of two observations up to what the properties leave free: FIR entry order, and the
/// representation of wholly ignored RPSI bytes (compared as bit strings).
pub fn same_observation(a: &Pkt, b: &Pkt) -> bool {
    match (a, b) {
        (Pkt::Fb { kind: k1, sender: s1, media: m1, fci: f1, pad: p1 }, Pkt::Fb { kind: k2, sender: s2, media: m2, fci: f2, pad: p2 }) => {
            if (k1, s1, m1, p1) != (k2, s2, m2, p2) {
                return false;
            }
            match (f1, f2) {
                (Fci::Fir(x), Fci::Fir(y)) => {
                    let (mut x, mut y) = (x.clone(), y.clone());
                    x.sort();
                    y.sort();
                    x == y
                }
                (Fci::Rpsi { pt: a, data: da, overrun: oa }, Fci::Rpsi { pt: b, data: db, overrun: ob }) => {
                    a == b && crate::refmodel::read::bits(da, *oa as usize) == crate::refmodel::read::bits(db, *ob as usize)
                }
                _ => f1 == f2,
            }
        }
        _ => a == b,
    }
}
