pub mod build;
pub mod ext;
pub mod observe;
