//! Abstract configuration -> real builder calls. The only place where builder APIs are touched
//! (besides the call-history explorer of C20, which needs to drive individual setters).

use crate::refmodel::model::*;
use crate::refmodel::repr::WErr;
use rtcp_types::prelude::*;
use rtcp_types::*;

/// Adapter giving a `&dyn RtcpPacketWriter` the crate's own (blanket, non-overridable) `write_into`.
#[derive(Debug)]
pub struct DynW<'a>(pub &'a dyn RtcpPacketWriter);

impl<'a> RtcpPacketWriter for DynW<'a> {
    fn calculate_size(&self) -> Result<usize, RtcpWriteError> {
        self.0.calculate_size()
    }
    fn write_into_unchecked(&self, buf: &mut [u8]) -> usize {
        self.0.write_into_unchecked(buf)
    }
    fn get_padding(&self) -> Option<u8> {
        self.0.get_padding()
    }
}

pub fn werr(e: RtcpWriteError) -> WErr {
    use RtcpWriteError as E;
    match e {
        E::OutputTooSmall(n) => WErr::OutputTooSmall(n),
        E::InvalidPadding { padding } => WErr::InvalidPadding { padding },
        E::AppSubtypeOutOfRange { subtype, max } => WErr::AppSubtypeOutOfRange { subtype, max },
        E::InvalidName => WErr::InvalidName,
        E::DataLen32bitMultiple(n) => WErr::DataLen32bitMultiple(n),
        E::TooManySources { count, max } => WErr::TooManySources { count, max },
        E::ReasonLenTooLarge { len, max } => WErr::ReasonLenTooLarge { len, max },
        E::CumulativeLostTooLarge { value, max } => WErr::CumulativeLostTooLarge { value, max },
        E::TooManyReportBlocks { count, max } => WErr::TooManyReportBlocks { count, max },
        E::TooManySdesChunks { count, max } => WErr::TooManySdesChunks { count, max },
        E::SdesValueTooLarge { len, max } => WErr::SdesValueTooLarge { len, max },
        E::SdesPrivPrefixTooLarge { len, max } => WErr::SdesPrivPrefixTooLarge { len, max },
        E::CountOutOfRange { count, max } => WErr::CountOutOfRange { count, max },
        E::NonLastCompoundPacketPadding => WErr::NonLastCompoundPacketPadding,
        E::MissingFci => WErr::MissingFci,
        E::TooManyNack => WErr::TooManyNack,
        E::FciWrongFeedbackPacketType => WErr::FciWrongFeedbackPacketType,
        E::PayloadTypeInvalid => WErr::PayloadTypeInvalid,
        E::PaddingBitsTooLarge => WErr::PaddingBitsTooLarge,
        E::TooManyFir => WErr::TooManyFir,
        #[allow(unreachable_patterns)]
        other => WErr::Other(format!("{:?}", other)),
    }
}

#[derive(Clone, Copy, Debug, PartialEq, Eq)]
pub enum Wrap {
    /// the concrete builder itself
    None,
    /// `PacketBuilder::from(builder)`
    Packet,
    /// `Compound::builder().add_packet(builder)`
    Compound1,
    /// `Compound::builder().add_packet(PacketBuilder::from(builder))`
    CompoundPacket,
}

pub const WRAPS: [Wrap; 4] = [Wrap::None, Wrap::Packet, Wrap::Compound1, Wrap::CompoundPacket];

#[derive(Clone, Copy, Debug, PartialEq, Eq)]
pub struct Variant {
    /// use the owned flavour of every API that has one (reason_owned, add_item_owned / into_owned,
    /// native_data_owned, builder_owned)
    pub owned: bool,
    pub wrap: Wrap,
    /// after every single builder call, query the intermediate builder (`calculate_size()` and a
    /// `write_into` a scratch buffer) before making the next call: the observation must not change
    /// what the finished builder produces (a builder that caches a size, or any other interior
    /// state, across further configuration calls is exposed by this flavour)
    pub probe: bool,
    /// call every scalar setter twice: first with another (legal or illegal) value, then with the configured
    /// one - a repeated setter keeps the last value
    pub reset: bool,
    /// hand owned containers (`String`, `Vec<u8>`) to the plain setters that take `impl Into<Cow<..>>`
    /// (`reason`, `native_data`, `SdesItemBuilder::new`, `prefix`) instead of borrowed slices
    pub cow: bool,
    /// the other order of the padding setter: after everything else (lists, reason) where the plain flavour sets it
    /// first (SR, RR, SDES, BYE), first where the plain flavour sets it last (APP, unknown, feedback)
    pub pad_last: bool,
}

impl Variant {
    pub const PLAIN: Variant = Variant { owned: false, wrap: Wrap::None, probe: false, reset: false, cow: false, pad_last: false };
    pub const PROBED: Variant = Variant { owned: false, wrap: Wrap::None, probe: true, reset: false, cow: false, pad_last: false };
    pub const RESET: Variant = Variant { owned: false, wrap: Wrap::None, probe: false, reset: true, cow: false, pad_last: false };
    pub const COW: Variant = Variant { owned: false, wrap: Wrap::None, probe: false, reset: false, cow: true, pad_last: false };
    pub fn new(owned: bool, wrap: Wrap) -> Variant {
        Variant { owned, wrap, probe: false, reset: false, cow: false, pad_last: false }
    }
    /// the eight unprobed flavours, the two probed ones (borrowed / owned, bare builder) and the re-set one
    pub fn all() -> Vec<Variant> {
        let mut v = Vec::new();
        for owned in [false, true] {
            for wrap in WRAPS {
                v.push(Variant { owned, wrap, probe: false, reset: false, cow: false, pad_last: false });
            }
        }
        v.push(Variant { owned: false, wrap: Wrap::None, probe: true, reset: false, cow: false, pad_last: false });
        v.push(Variant { owned: true, wrap: Wrap::None, probe: true, reset: false, cow: false, pad_last: false });
        v.push(Variant { owned: false, wrap: Wrap::None, probe: false, reset: true, cow: false, pad_last: false });
        v.push(Variant::COW);
        v.push(Variant { pad_last: true, probe: true, ..Variant::PLAIN });
        v
    }
    /// every combination owned x wrap x probe (16), then four with every scalar setter called twice
    pub fn full() -> Vec<Variant> {
        let mut v = Vec::new();
        for probe in [false, true] {
            for owned in [false, true] {
                for wrap in WRAPS {
                    v.push(Variant { owned, wrap, probe, reset: false, cow: false, pad_last: false });
                }
            }
        }
        for owned in [false, true] {
            for (wrap, probe) in [(Wrap::None, false), (Wrap::Compound1, true)] {
                v.push(Variant { owned, wrap, probe, reset: true, cow: false, pad_last: false });
            }
        }
        // owned containers handed to the plain setters: bare / wrapped, plain / probed
        for (wrap, probe) in [(Wrap::None, false), (Wrap::Packet, false), (Wrap::Compound1, true)] {
            v.push(Variant { owned: false, wrap, probe, reset: false, cow: true, pad_last: false });
        }
        // padding set last, with the builder queried after every call (a query before the padding is known)
        for (owned, wrap) in [(false, Wrap::None), (true, Wrap::None), (false, Wrap::Compound1)] {
            v.push(Variant { owned, wrap, probe: true, reset: false, cow: false, pad_last: true });
        }
        v
    }
}

thread_local! {
    static PROBE_BUF: std::cell::RefCell<Vec<u8>> = std::cell::RefCell::new(vec![0u8; 4096]);
}

/// The probe of the `probe` flavour: query an intermediate builder, then hand it back unchanged.
#[inline]
pub fn pr<W: RtcpPacketWriter>(w: W, on: bool) -> W {
    if on {
        PROBE_BUF.with(|b| {
            if let Ok(mut b) = b.try_borrow_mut() {
                let _ = w.calculate_size();
                let _ = w.get_padding();
                let _ = DynW(&w).write_into(&mut b[..]);
                decoys_for(&w, &mut b[..]);
            }
        });
    }
    w
}

/// Another builder instance of the same type living its whole life between two calls on the builder under
/// observation: configured, sized and written. A builder's output is a function of its own configuration;
/// anything remembered outside the builder (a `static`, a `thread_local!`) by one instance and picked up by another
/// shows as a difference between the probed and the plain flavour. The decoy is chosen by the type of the observed
/// builder (a per-type cache is the realistic case) and, for payload feedback, by the observed builder's size.
#[inline(never)]
fn decoys_for<W: RtcpPacketWriter>(w: &W, buf: &mut [u8]) {
    fn go<D: RtcpPacketWriter>(d: D, buf: &mut [u8]) {
        let _ = d.calculate_size();
        let _ = d.get_padding();
        let _ = DynW(&d).write_into(buf);
    }
    let name = std::any::type_name::<W>();
    let short = name.rsplit("::").next().unwrap_or(name);
    if short.starts_with("ByeBuilder") {
        go(Bye::builder().padding(8).add_source(0xD0D0_0001).add_source(0xD0D0_0002).reason("decoy bye"), buf);
    } else if short.starts_with("AppBuilder") {
        go(App::builder(0xD0D0_0003, "dcoy").subtype(21).data(&[1u8, 2, 3, 4, 5, 6, 7, 8][..]).padding(4), buf);
    } else if short.starts_with("SenderReportBuilder") {
        go(SenderReport::builder(0xD0D0_0004).ntp_timestamp(0x0D0C_0B0A_0908_0706).rtp_timestamp(77).packet_count(78).octet_count(79).padding(12).add_report_block(ReportBlock::builder(0xD0D0_0005).fraction_lost(9).cumulative_lost(10)), buf);
    } else if short.starts_with("ReceiverReportBuilder") {
        go(ReceiverReport::builder(0xD0D0_0006).add_report_block(ReportBlock::builder(0xD0D0_0007)).add_report_block(ReportBlock::builder(0xD0D0_0008)).padding(4), buf);
    } else if short.starts_with("SdesBuilder") {
        decoy_sdes(buf);
    } else if short.starts_with("TransportFeedbackBuilder") || short.starts_with("NackBuilder") {
        go(TransportFeedback::builder_owned(Nack::builder().add_rtp_sequence(1).add_rtp_sequence(40).add_rtp_sequence(41)).sender_ssrc(0xD0D0_000A).media_ssrc(0xD0D0_000B).padding(4), buf);
    } else if short.starts_with("PayloadFeedbackBuilder") {
        match w.calculate_size().unwrap_or(0) / 4 % 4 {
            0 => go(PayloadFeedback::builder_owned(Pli::builder()).sender_ssrc(0xD0D0_000C).media_ssrc(0xD0D0_000D).padding(8), buf),
            1 => go(PayloadFeedback::builder_owned(Rpsi::builder().payload_type(101).native_data_owned(&[0xDE, 0xC0, 0x1F][..], 3)).sender_ssrc(0xD0D0_000E).media_ssrc(0xD0D0_000F), buf),
            2 => go(PayloadFeedback::builder_owned(Sli::builder().add_lost_macroblock(3, 4, 5)).sender_ssrc(1).media_ssrc(2), buf),
            _ => go(PayloadFeedback::builder_owned(Fir::builder().add_ssrc(0xD0D0_0010, 7)).sender_ssrc(3).media_ssrc(4), buf),
        }
    } else if short.starts_with("RpsiBuilder") {
        go(Rpsi::builder().payload_type(101).native_data_owned(&[0xDE, 0xC0, 0x1F][..], 3), buf);
    } else if short.starts_with("SliBuilder") {
        go(Sli::builder().add_lost_macroblock(3, 4, 5), buf);
    } else if short.starts_with("FirBuilder") {
        go(Fir::builder().add_ssrc(0xD0D0_0010, 7), buf);
    } else if short.starts_with("UnknownBuilder") {
        go(Unknown::builder(211, &[0xD0u8, 0xD1, 0xD2, 0xD3, 0xD4, 0xD5, 0xD6, 0xD7][..]).count(3).padding(4), buf);
    } else if short.starts_with("CompoundBuilder") || short.starts_with("PacketBuilder") {
        go(Compound::builder().add_packet(ReceiverReport::builder(0xD0D0_0011)).add_packet(PacketBuilder::from(Bye::builder().add_source(0xD0D0_0012).padding(4))), buf);
    }
}

fn decoy_sdes(buf: &mut [u8]) {
    let w = Sdes::builder().padding(4).add_chunk(SdesChunk::builder(0xD0D0_0009).add_item(SdesItem::builder(SdesItem::CNAME, "decoy")).add_item_owned(SdesItem::builder(SdesItem::PRIV, "val").prefix(&b"pre"[..])));
    let _ = w.calculate_size();
    let _ = DynW(&w).write_into(buf);
}

/// In a list of `n` adds, the positions after which the probe flavour queries the builder: the first
/// three, every power of two, and the last (probing after every one of 65 536 adds would make the
/// harness itself quadratic).
#[inline]
pub fn probe_at(i: usize, n: usize) -> bool {
    i < 3 || i + 1 == n || (i + 1).is_power_of_two()
}

/// The same probe for the two SDES part builders (they are not `RtcpPacketWriter`s but have their own `write_into`).
#[inline]
pub fn pr_chunk<'a>(w: SdesChunkBuilder<'a>, on: bool) -> SdesChunkBuilder<'a> {
    if on {
        PROBE_BUF.with(|b| {
            if let Ok(mut b) = b.try_borrow_mut() {
                let _ = w.write_into(&mut b[..0]);
                let _ = w.write_into(&mut b[..]);
                decoy_sdes(&mut b[..]);
            }
        });
    }
    w
}
#[inline]
pub fn pr_item<'a>(w: SdesItemBuilder<'a>, on: bool) -> SdesItemBuilder<'a> {
    if on {
        PROBE_BUF.with(|b| {
            if let Ok(mut b) = b.try_borrow_mut() {
                let _ = w.write_into(&mut b[..0]);
                let _ = w.write_into(&mut b[..]);
                decoy_sdes(&mut b[..]);
            }
        });
    }
    w
}

/// `ch!(on; start, .call(args), .call(args) ...)`: a builder call chain with a probe after every call.
macro_rules! ch {
    ($on:expr; $e:expr $(, . $m:ident ( $($a:expr),* ))* $(,)?) => {{
        let b = pr($e, $on);
        $( let b = pr(b.$m($($a),*), $on); )*
        b
    }};
}

/// The re-set flavour of a report block: every setter first called with another value - the cumulative loss with one
/// that does not fit 24 bits - and the fraction lost set before, not after, the cumulative loss is corrected.
pub fn rb_builder_reset(b: &Rb) -> ReportBlockBuilder {
    ReportBlock::builder(b.ssrc)
        .fraction_lost(b.fraction)
        .cumulative_lost(0xAB00_0000 | (b.cum ^ 0x55))
        .cumulative_lost(b.cum)
        .extended_sequence_number(!b.ext_seq)
        .extended_sequence_number(b.ext_seq)
        .interarrival_jitter(!b.jitter)
        .interarrival_jitter(b.jitter)
        .last_sender_report_timestamp(!b.lsr)
        .last_sender_report_timestamp(b.lsr)
        .delay_since_last_sender_report_timestamp(!b.dlsr)
        .delay_since_last_sender_report_timestamp(b.dlsr)
}

pub fn rb_builder(b: &Rb) -> ReportBlockBuilder {
    ReportBlock::builder(b.ssrc)
        .fraction_lost(b.fraction)
        .cumulative_lost(b.cum)
        .extended_sequence_number(b.ext_seq)
        .interarrival_jitter(b.jitter)
        .last_sender_report_timestamp(b.lsr)
        .delay_since_last_sender_report_timestamp(b.dlsr)
}

pub fn as_str(b: &[u8]) -> &str {
    std::str::from_utf8(b).expect("generator produced a non-UTF-8 SDES value")
}

pub fn item_builder<'a>(it: &'a Item, owned: bool) -> SdesItemBuilder<'a> {
    let mut b = SdesItem::builder(it.ty, as_str(&it.value));
    if !it.prefix.is_empty() {
        b = b.prefix(&it.prefix[..]);
    }
    if owned {
        b.into_owned()
    } else {
        b
    }
}

pub fn chunk_builder<'a>(c: &'a Chunk, owned: bool) -> SdesChunkBuilder<'a> {
    let mut cb = SdesChunk::builder(c.ssrc);
    for it in &c.items {
        if owned {
            // the borrowed item is handed to the owning adder
            let mut b = SdesItem::builder(it.ty, as_str(&it.value));
            if !it.prefix.is_empty() {
                b = b.prefix(&it.prefix[..]);
            }
            cb = cb.add_item_owned(b);
        } else {
            cb = cb.add_item(item_builder(it, false));
        }
    }
    cb
}

/// items made with owned strings / vectors handed to `SdesItemBuilder::new` and `prefix`
pub fn chunk_builder_cow(c: &Chunk) -> SdesChunkBuilder<'static> {
    let mut cb = SdesChunk::builder(c.ssrc);
    for it in &c.items {
        let mut b = SdesItemBuilder::new(it.ty, as_str(&it.value).to_string());
        if !it.prefix.is_empty() {
            b = b.prefix(it.prefix.clone());
        }
        cb = cb.add_item(b);
    }
    cb
}

pub fn chunk_builder_p<'a>(c: &'a Chunk, owned: bool, on: bool) -> SdesChunkBuilder<'a> {
    chunk_builder_pr(c, owned, on, false)
}

/// `rs`: the re-set flavour - an item that gets a prefix is first given one that is too long (300 bytes)
pub fn chunk_builder_pr<'a>(c: &'a Chunk, owned: bool, on: bool, rs: bool) -> SdesChunkBuilder<'a> {
    if !on && !rs {
        return chunk_builder(c, owned);
    }
    static LONG_PREFIX: [u8; 300] = [b'p'; 300];
    let mut cb = pr_chunk(SdesChunk::builder(c.ssrc), on);
    for (i, it) in c.items.iter().enumerate() {
        let on = on && probe_at(i, c.items.len());
        let mut b = pr_item(SdesItem::builder(it.ty, as_str(&it.value)), on);
        if !it.prefix.is_empty() {
            if rs {
                b = pr_item(b.prefix(&LONG_PREFIX[..]), on);
            }
            b = pr_item(b.prefix(&it.prefix[..]), on);
        }
        cb = pr_chunk(if owned { cb.add_item_owned(b) } else { cb.add_item(b) }, on);
    }
    cb
}
pub fn nack_builder_p(v: &[u16], on: bool) -> NackBuilder {
    let mut b = pr(Nack::builder(), on);
    for (i, s) in v.iter().enumerate() {
        b = pr(b.add_rtp_sequence(*s), on && probe_at(i, v.len()));
    }
    b
}
pub fn fir_builder_p(v: &[(u32, u8)], on: bool) -> FirBuilder {
    let mut b = pr(Fir::builder(), on);
    for (i, (s, q)) in v.iter().enumerate() {
        b = pr(b.add_ssrc(*s, *q), on && probe_at(i, v.len()));
    }
    b
}
pub fn sli_builder_p(v: &[(u16, u16, u8)], on: bool) -> SliBuilder {
    let mut b = pr(Sli::builder(), on);
    for (i, (a, n, p)) in v.iter().enumerate() {
        b = pr(b.add_lost_macroblock(*a, *n, *p), on && probe_at(i, v.len()));
    }
    b
}
pub fn nack_builder(v: &[u16]) -> NackBuilder {
    let mut b = Nack::builder();
    for s in v {
        b = b.add_rtp_sequence(*s);
    }
    b
}
pub fn fir_builder(v: &[(u32, u8)]) -> FirBuilder {
    let mut b = Fir::builder();
    for (s, q) in v {
        b = b.add_ssrc(*s, *q);
    }
    b
}
pub fn sli_builder(v: &[(u16, u16, u8)]) -> SliBuilder {
    let mut b = Sli::builder();
    for (a, n, p) in v {
        b = b.add_lost_macroblock(*a, *n, *p);
    }
    b
}
pub fn rpsi_builder<'a>(pt: u8, data: &'a [u8], overrun: u8) -> RpsiBuilder<'a> {
    Rpsi::builder().payload_type(pt).native_data(data, overrun)
}
pub fn rpsi_builder_owned(pt: u8, data: &[u8], overrun: u8) -> RpsiBuilder<'static> {
    Rpsi::builder().payload_type(pt).native_data_owned(data, overrun)
}

fn finish<'a, W>(w: W, wrap: Wrap, f: &mut dyn FnMut(&dyn RtcpPacketWriter))
where
    W: RtcpPacketWriter + 'a,
    PacketBuilder<'a>: From<W>,
{
    match wrap {
        Wrap::None => f(&w),
        Wrap::Packet => {
            let pb = PacketBuilder::from(w);
            f(&pb)
        }
        Wrap::Compound1 => {
            let c = Compound::builder().add_packet(w);
            f(&c)
        }
        Wrap::CompoundPacket => {
            let c = Compound::builder().add_packet(PacketBuilder::from(w));
            f(&c)
        }
    }
}

/// A copy of the bytes a borrowed-flavour builder is given (payload, name, reason, bit string), starting at a rotating
/// address residue modulo 8 (`guard::out_residue`): the builders keep the caller's slice, so where it lives is part
/// of the configuration's environment just as the output buffer's address is.
pub struct In {
    v: Vec<u8>,
    off: usize,
    len: usize,
}

impl In {
    pub fn new(b: &[u8]) -> In {
        let residue = crate::engine::guard::out_residue();
        let mut v: Vec<u8> = Vec::with_capacity(b.len() + 16);
        let base = v.as_ptr() as usize;
        let off = (residue + 8 - base % 8) % 8;
        v.resize(off, 0xEE);
        v.extend_from_slice(b);
        In { v, off, len: b.len() }
    }
    pub fn bytes(&self) -> &[u8] {
        &self.v[self.off..self.off + self.len]
    }
    pub fn str(&self) -> &str {
        as_str(self.bytes())
    }
}

/// Realise configuration `p` with the crate's builders (in the flavour `var`) and hand the
/// resulting writer to `f`.
pub fn with_writer(p: &Pkt, var: Variant, f: &mut dyn FnMut(&dyn RtcpPacketWriter)) {
    let wrap = var.wrap;
    let on = var.probe;
    let rs = var.reset;
    // the other value a re-set flavour gives a setter first
    let other_pad = |p: u8| if p == 8 { 5u8 } else { 8u8 };
    match p {
        Pkt::Sr { ssrc, ntp, rtp, pc, oc, blocks, pad } => {
            let mut b = pr(SenderReport::builder(*ssrc), on);
            if rs {
                b = ch!(on; b, .padding(other_pad(*pad)), .ntp_timestamp(!*ntp), .rtp_timestamp(!*rtp), .packet_count(!*pc), .octet_count(!*oc));
            }
            let mut b = ch!(on; b, .ntp_timestamp(*ntp), .rtp_timestamp(*rtp), .packet_count(*pc), .octet_count(*oc));
            if !var.pad_last {
                b = pr(b.padding(*pad), on);
            }
            for (i, rb) in blocks.iter().enumerate() {
                b = pr(b.add_report_block(if rs { rb_builder_reset(rb) } else { rb_builder(rb) }), on && probe_at(i, blocks.len()));
            }
            if var.pad_last {
                b = pr(b.padding(*pad), on);
            }
            finish(b, wrap, f)
        }
        Pkt::Rr { ssrc, blocks, pad } => {
            let mut b = pr(ReceiverReport::builder(*ssrc), on);
            if rs {
                b = pr(b.padding(other_pad(*pad)), on);
            }
            let mut b = if var.pad_last { b } else { pr(b.padding(*pad), on) };
            for (i, rb) in blocks.iter().enumerate() {
                b = pr(b.add_report_block(if rs { rb_builder_reset(rb) } else { rb_builder(rb) }), on && probe_at(i, blocks.len()));
            }
            if var.pad_last {
                b = pr(b.padding(*pad), on);
            }
            finish(b, wrap, f)
        }
        Pkt::Sdes { chunks, pad } => {
            let mut b = pr(Sdes::builder(), on);
            if rs {
                b = pr(b.padding(other_pad(*pad)), on);
            }
            let mut b = if var.pad_last { b } else { pr(b.padding(*pad), on) };
            for (i, c) in chunks.iter().enumerate() {
                let on = on && probe_at(i, chunks.len());
                b = pr(b.add_chunk(if var.cow { chunk_builder_cow(c) } else { chunk_builder_pr(c, var.owned, on, rs) }), on);
            }
            if var.pad_last {
                b = pr(b.padding(*pad), on);
            }
            finish(b, wrap, f)
        }
        Pkt::Bye { ssrcs, reason, pad } => {
            let mut b = pr(Bye::builder(), on);
            if rs {
                b = pr(b.padding(other_pad(*pad)), on);
            }
            let mut b = if var.pad_last { b } else { pr(b.padding(*pad), on) };
            for (i, s) in ssrcs.iter().enumerate() {
                b = pr(b.add_source(*s), on && probe_at(i, ssrcs.len()));
            }
            // the re-set flavour gives a reason first that is too long (300 bytes), through the other of the two setters
            const LONG_REASON: &str = "this reason is longer than the two hundred and fifty-five bytes a BYE packet can carry: aaaaaaaaaaaaaaaaaaaaaaaaaaaaaaaaaaaaaaaaaaaaaaaaaaaaaaaaaaaaaaaaaaaaaaaaaaaaaaaaaaaaaaaaaaaaaaaaaaaaaaaaaaaaaaaaaaaaaaaaaaaaaaaaaaaaaaaaaaaaaaaaaaaaaaaaaaaaaaaaaaaaaaaaaaaaaaaaaaaaaaaaaaaaaaaaaaaaaaaaaaaaaaaaaaaaaaaaaaaaa";
            if rs && (var.owned || !reason.is_empty()) {
                b = pr(if ssrcs.len() % 2 == 0 { b.reason(LONG_REASON) } else { b.reason_owned(LONG_REASON) }, on);
                // ... then a legal one of middling length through the owning setter (whatever storage it leaves behind
                // must not leak into the next, possibly shorter, reason)
                if reason.len() % 2 == 0 {
                    b = pr(b.reason_owned("a previous reason that is still legal"), on);
                }
            }
            if var.owned {
                let mut b = pr(if reason.is_empty() { b.reason_owned("") } else { b.reason_owned(reason.as_str()) }, on);
                if var.pad_last {
                    b = pr(b.padding(*pad), on);
                }
                finish(b, wrap, f)
            } else {
                let rin = In::new(reason.as_bytes());
                if !reason.is_empty() {
                    b = pr(if var.cow { b.reason(reason.clone()) } else { b.reason(rin.str()) }, on);
                }
                if var.pad_last {
                    b = pr(b.padding(*pad), on);
                }
                finish(b, wrap, f)
            }
        }
        Pkt::App { ssrc, subtype, name, data, pad } => {
            let (nin, din) = (In::new(name.as_bytes()), In::new(data));
            let mut b = pr(App::builder(*ssrc, nin.str()), on);
            if rs {
                b = ch!(on; b, .padding(other_pad(*pad)), .data(&[9u8, 9, 9][..]), .subtype(subtype.wrapping_add(7)));
            }
            // the plain order sets the padding last; the "pad_last" flavour is the other order here: padding first
            let b = if var.pad_last { ch!(on; b, .padding(*pad), .subtype(*subtype), .data(din.bytes())) } else { ch!(on; b, .subtype(*subtype), .data(din.bytes()), .padding(*pad)) };
            finish(b, wrap, f)
        }
        Pkt::Unknown { pt, count, data, pad } => {
            let din = In::new(data);
            let mut b = pr(Unknown::builder(*pt, din.bytes()), on);
            if rs {
                b = ch!(on; b, .padding(other_pad(*pad)), .count(count.wrapping_add(7)), .padding(12));
            }
            let b = if var.pad_last { ch!(on; b, .padding(*pad), .count(*count)) } else { ch!(on; b, .count(*count), .padding(*pad)) };
            finish(b, wrap, f)
        }
        Pkt::Fb { kind, sender, media, fci, pad } => {
            let (kind, sender, media, pad) = (*kind, *sender, *media, *pad);
            macro_rules! fbb {
                ($ctor:ident, $fci:expr) => {
                    match kind {
                        Kind::Transport => {
                            let mut b = pr(TransportFeedback::$ctor($fci), on);
                            if rs {
                                b = ch!(on; b, .padding(other_pad(pad)), .sender_ssrc(!sender), .media_ssrc(!media));
                            }
                            finish(if var.pad_last { ch!(on; b, .padding(pad), .media_ssrc(media), .sender_ssrc(sender)) } else { ch!(on; b, .sender_ssrc(sender), .media_ssrc(media), .padding(pad)) }, wrap, f)
                        }
                        Kind::Payload => {
                            let mut b = pr(PayloadFeedback::$ctor($fci), on);
                            if rs {
                                b = ch!(on; b, .padding(other_pad(pad)), .sender_ssrc(!sender), .media_ssrc(!media));
                            }
                            finish(if var.pad_last { ch!(on; b, .padding(pad), .media_ssrc(media), .sender_ssrc(sender)) } else { ch!(on; b, .sender_ssrc(sender), .media_ssrc(media), .padding(pad)) }, wrap, f)
                        }
                    }
                };
            }
            if var.owned {
                match fci {
                    Fci::Nack(v) => fbb!(builder_owned, nack_builder_p(v, on)),
                    Fci::Fir(v) => fbb!(builder_owned, fir_builder_p(v, on)),
                    Fci::Sli(v) => fbb!(builder_owned, sli_builder_p(v, on)),
                    Fci::Rpsi { pt, data, overrun } => {
                        let mut r = pr(Rpsi::builder(), on);
                        if rs {
                            r = ch!(on; r, .native_data_owned(&[0xEEu8, 0xEE, 0xEE][..], 9), .payload_type(pt.wrapping_add(77)));
                        }
                        fbb!(builder_owned, ch!(on; r, .payload_type(*pt), .native_data_owned(&data[..], *overrun)))
                    }
                    Fci::Pli => fbb!(builder_owned, pr(Pli::builder(), on)),
                }
            } else {
                match fci {
                    Fci::Nack(v) => {
                        let fb = nack_builder_p(v, on);
                        fbb!(builder, &fb)
                    }
                    Fci::Fir(v) => {
                        let fb = fir_builder_p(v, on);
                        fbb!(builder, &fb)
                    }
                    Fci::Sli(v) => {
                        let fb = sli_builder_p(v, on);
                        fbb!(builder, &fb)
                    }
                    Fci::Rpsi { pt, data, overrun } => {
                        let mut r = pr(Rpsi::builder(), on);
                        if rs {
                            r = ch!(on; r, .native_data(&[0xEEu8, 0xEE, 0xEE][..], 9), .payload_type(pt.wrapping_add(77)));
                        }
                        let din = In::new(data);
                        let fb = if var.cow { ch!(on; r, .payload_type(*pt), .native_data(data.clone(), *overrun)) } else { ch!(on; r, .payload_type(*pt), .native_data(din.bytes(), *overrun)) };
                        fbb!(builder, &fb)
                    }
                    Fci::Pli => {
                        let fb = pr(Pli::builder(), on);
                        fbb!(builder, &fb)
                    }
                }
            }
        }
    }
}

/// The FCI builder alone (it is itself an `RtcpPacketWriter`).
pub fn with_fci_writer(fci: &Fci, owned: bool, f: &mut dyn FnMut(&dyn RtcpPacketWriter)) {
    match fci {
        Fci::Nack(v) => f(&nack_builder(v)),
        Fci::Fir(v) => f(&fir_builder(v)),
        Fci::Sli(v) => f(&sli_builder(v)),
        Fci::Rpsi { pt, data, overrun } => {
            if owned {
                f(&rpsi_builder_owned(*pt, data, *overrun))
            } else {
                f(&rpsi_builder(*pt, data, *overrun))
            }
        }
        Fci::Pli => f(&Pli::builder()),
    }
}

fn add_pkt<'a>(cb: CompoundBuilder<'a>, p: &'a Pkt, wrapped: bool) -> CompoundBuilder<'a> {
    macro_rules! add {
        ($b:expr) => {
            if wrapped {
                cb.add_packet(PacketBuilder::from($b))
            } else {
                cb.add_packet($b)
            }
        };
    }
    match p {
        Pkt::Sr { ssrc, ntp, rtp, pc, oc, blocks, pad } => {
            let mut b = SenderReport::builder(*ssrc).ntp_timestamp(*ntp).rtp_timestamp(*rtp).packet_count(*pc).octet_count(*oc).padding(*pad);
            for rb in blocks {
                b = b.add_report_block(rb_builder(rb));
            }
            add!(b)
        }
        Pkt::Rr { ssrc, blocks, pad } => {
            let mut b = ReceiverReport::builder(*ssrc).padding(*pad);
            for rb in blocks {
                b = b.add_report_block(rb_builder(rb));
            }
            add!(b)
        }
        Pkt::Sdes { chunks, pad } => {
            let mut b = Sdes::builder().padding(*pad);
            for c in chunks {
                b = b.add_chunk(chunk_builder(c, false));
            }
            add!(b)
        }
        Pkt::Bye { ssrcs, reason, pad } => {
            let mut b = Bye::builder().padding(*pad);
            for s in ssrcs {
                b = b.add_source(*s);
            }
            if !reason.is_empty() {
                b = b.reason(reason.as_str());
            }
            add!(b)
        }
        Pkt::App { ssrc, subtype, name, data, pad } => add!(App::builder(*ssrc, name.as_str()).subtype(*subtype).data(&data[..]).padding(*pad)),
        Pkt::Unknown { pt, count, data, pad } => add!(Unknown::builder(*pt, &data[..]).count(*count).padding(*pad)),
        Pkt::Fb { kind, sender, media, fci, pad } => {
            macro_rules! fbo {
                ($fci:expr) => {
                    match kind {
                        Kind::Transport => add!(TransportFeedback::builder_owned($fci).sender_ssrc(*sender).media_ssrc(*media).padding(*pad)),
                        Kind::Payload => add!(PayloadFeedback::builder_owned($fci).sender_ssrc(*sender).media_ssrc(*media).padding(*pad)),
                    }
                };
            }
            match fci {
                Fci::Nack(v) => fbo!(nack_builder(v)),
                Fci::Fir(v) => fbo!(fir_builder(v)),
                Fci::Sli(v) => fbo!(sli_builder(v)),
                Fci::Rpsi { pt, data, overrun } => fbo!(rpsi_builder_owned(*pt, data, *overrun)),
                Fci::Pli => fbo!(Pli::builder()),
            }
        }
    }
}

/// A `CompoundBuilder` over a member list (nested compounds become nested `CompoundBuilder`s).
pub fn compound_builder<'a>(ms: &'a [Member]) -> CompoundBuilder<'a> {
    compound_builder_p(ms, false)
}

/// The same, optionally querying the compound builder (size + scratch write) after every `add_packet`.
pub fn compound_builder_p<'a>(ms: &'a [Member], probe: bool) -> CompoundBuilder<'a> {
    compound_builder_pm(ms, if probe { 1 } else { 0 })
}

/// Where the compound builder (and every nested one) is queried: 0 nowhere; 1 when fresh and after every
/// `add_packet`; 2 the same except after the last `add_packet` of each builder (so the last thing a builder was asked
/// predates its last member: a memo filled by the query and read through another method - `get_padding()` by the
/// enclosing compound - is stale); 3 only when fresh and after the first `add_packet`.
pub fn compound_builder_pm<'a>(ms: &'a [Member], mode: u8) -> CompoundBuilder<'a> {
    let at = |i: usize, n: usize| match mode {
        0 => false,
        1 => true,
        2 => i + 1 < n,
        _ => i == 0,
    };
    let mut cb = pr(Compound::builder(), mode != 0);
    let n = ms.len();
    for (i, m) in ms.iter().enumerate() {
        cb = match m {
            Member::Plain(p) => add_pkt(cb, p, false),
            Member::Wrapped(p) => add_pkt(cb, p, true),
            Member::Ext { pt, min, count, ssrc, words, pad } => super::ext::add_ext(cb, *pt, *min, *count, *ssrc, words, *pad),
            Member::Nested(inner) => cb.add_packet(compound_builder_pm(inner, mode)),
        };
        cb = pr(cb, at(i, n));
    }
    cb
}

/// Write `w` into a buffer of `cap` bytes pre-filled by `fill(i)`; returns (result, buffer).
pub fn write_filled(w: &dyn RtcpPacketWriter, cap: usize, fill: impl Fn(usize) -> u8) -> (Result<usize, WErr>, Vec<u8>) {
    let mut buf = crate::engine::place::OutBuf::new(cap, &fill);
    let r = DynW(w).write_into(&mut buf).map_err(werr);
    (r, buf.into_vec())
}
