//! A family of third-party packet types `Ext<PT, MIN>` written only with the crate's public
//! helpers (`utils::writer::*`, `utils::parser::check_packet`), in the style of tests/custom_packet.rs.

use rtcp_types::prelude::*;
use rtcp_types::utils::{parser, writer};
use rtcp_types::*;

pub const EXT_PTS: [u8; 6] = [0, 192, 199, 207, 242, 255];
pub const EXT_MINS: [usize; 4] = [4, 8, 12, 16];

#[derive(Clone, Debug, PartialEq, Eq)]
pub struct Ext<'a, const PT: u8, const MIN: usize> {
    data: &'a [u8],
}

impl<'a, const PT: u8, const MIN: usize> RtcpPacket for Ext<'a, PT, MIN> {
    const MIN_PACKET_LEN: usize = MIN;
    const PACKET_TYPE: u8 = PT;
}

impl<'a, const PT: u8, const MIN: usize> RtcpPacketParser<'a> for Ext<'a, PT, MIN> {
    fn parse(data: &'a [u8]) -> Result<Self, RtcpParseError> {
        parser::check_packet::<Self>(data)?;
        Ok(Self { data })
    }
    fn header_data(&self) -> [u8; 4] {
        self.data[..4].try_into().unwrap()
    }
}

impl<'a, const PT: u8, const MIN: usize> Ext<'a, PT, MIN> {
    pub fn padding(&self) -> Option<u8> {
        parser::parse_padding(self.data)
    }
    pub fn raw(&self) -> &'a [u8] {
        self.data
    }
}

impl<'a, const PT: u8, const MIN: usize> TryFrom<&'a Unknown<'a>> for Ext<'a, PT, MIN> {
    type Error = RtcpParseError;
    fn try_from(u: &'a Unknown<'a>) -> Result<Self, Self::Error> {
        Ext::parse(u.data())
    }
}

impl<'a, const PT: u8, const MIN: usize> TryFrom<&'a Packet<'a>> for Ext<'a, PT, MIN> {
    type Error = RtcpParseError;
    fn try_from(p: &'a Packet<'a>) -> Result<Self, Self::Error> {
        match p {
            Packet::Unknown(u) => Self::try_from(u),
            _ => Err(RtcpParseError::PacketTypeMismatch { actual: p.type_(), requested: PT }),
        }
    }
}

/// Writer: header, SSRC, payload words, padding trailer — helpers only.
#[derive(Debug)]
pub struct ExtBuilder<const PT: u8, const MIN: usize> {
    pub count: u8,
    pub ssrc: u32,
    pub words: Vec<u32>,
    pub padding: u8,
}

impl<const PT: u8, const MIN: usize> RtcpPacketWriter for ExtBuilder<PT, MIN> {
    fn calculate_size(&self) -> Result<usize, RtcpWriteError> {
        if self.count > 31 {
            return Err(RtcpWriteError::CountOutOfRange { count: self.count, max: 31 });
        }
        writer::check_padding(self.padding)?;
        Ok(8 + 4 * self.words.len() + self.padding as usize)
    }
    fn write_into_unchecked(&self, buf: &mut [u8]) -> usize {
        writer::write_header_unchecked::<Ext<PT, MIN>>(self.padding, self.count, buf);
        buf[4..8].copy_from_slice(&self.ssrc.to_be_bytes());
        let mut end = 8;
        for w in &self.words {
            buf[end..end + 4].copy_from_slice(&w.to_be_bytes());
            end += 4;
        }
        end += writer::write_padding_unchecked(self.padding, &mut buf[end..]);
        end
    }
    fn get_padding(&self) -> Option<u8> {
        // Both conventions a third-party writer may follow for "no padding requested" are represented in the
        // family: members with an even count answer None, members with an odd count answer Some(0).
        if self.padding == 0 && self.count % 2 == 0 {
            None
        } else {
            Some(self.padding)
        }
    }
}

/// What a parsed `Ext` exposes, as plain values.
#[derive(Clone, Debug, PartialEq, Eq)]
pub struct ExtView {
    pub version: u8,
    pub pt: u8,
    pub count: u8,
    pub length: usize,
    pub padding: Option<u8>,
    pub raw: Vec<u8>,
}

fn view<'a, const PT: u8, const MIN: usize>(e: &Ext<'a, PT, MIN>) -> ExtView {
    ExtView { version: e.version(), pt: e.type_(), count: e.count(), length: e.length(), padding: e.padding(), raw: e.raw().to_vec() }
}

macro_rules! dispatch {
    ($pt:expr, $min:expr, $m:ident, $($args:tt)*) => {
        match ($pt, $min) {
            (0, 4) => $m!(0, 4, $($args)*), (0, 8) => $m!(0, 8, $($args)*), (0, 12) => $m!(0, 12, $($args)*), (0, 16) => $m!(0, 16, $($args)*),
            (192, 4) => $m!(192, 4, $($args)*), (192, 8) => $m!(192, 8, $($args)*), (192, 12) => $m!(192, 12, $($args)*), (192, 16) => $m!(192, 16, $($args)*),
            (199, 4) => $m!(199, 4, $($args)*), (199, 8) => $m!(199, 8, $($args)*), (199, 12) => $m!(199, 12, $($args)*), (199, 16) => $m!(199, 16, $($args)*),
            (207, 4) => $m!(207, 4, $($args)*), (207, 8) => $m!(207, 8, $($args)*), (207, 12) => $m!(207, 12, $($args)*), (207, 16) => $m!(207, 16, $($args)*),
            (242, 4) => $m!(242, 4, $($args)*), (242, 8) => $m!(242, 8, $($args)*), (242, 12) => $m!(242, 12, $($args)*), (242, 16) => $m!(242, 16, $($args)*),
            (255, 4) => $m!(255, 4, $($args)*), (255, 8) => $m!(255, 8, $($args)*), (255, 12) => $m!(255, 12, $($args)*), (255, 16) => $m!(255, 16, $($args)*),
            // the typed parsers' own type numbers, so the framing oracle can be run against check_packet for them too
            (200, 28) => $m!(200, 28, $($args)*), (201, 8) => $m!(201, 8, $($args)*), (202, 4) => $m!(202, 4, $($args)*), (203, 4) => $m!(203, 4, $($args)*),
            (204, 12) => $m!(204, 12, $($args)*), (205, 12) => $m!(205, 12, $($args)*), (206, 12) => $m!(206, 12, $($args)*),
            other => panic!("Ext family has no member {:?}", other),
        }
    };
}

/// Third-party writers without any field (zero-sized types): everything they write is constant. `ZstPlain` is the
/// family member Ext<242,4> with count 0, SSRC 0x5A5A5A5A, no words, no padding; `ZstPadded` the same with 4 bytes
/// of padding. (Boxing a zero-sized value does not allocate: all such boxes share one address.)
pub const ZST_SSRC: u32 = 0x5A5A_5A5A;
#[derive(Debug)]
pub struct ZstPlain;
#[derive(Debug)]
pub struct ZstPadded;
impl RtcpPacketWriter for ZstPlain {
    fn calculate_size(&self) -> Result<usize, RtcpWriteError> {
        Ok(8)
    }
    fn write_into_unchecked(&self, buf: &mut [u8]) -> usize {
        writer::write_header_unchecked::<Ext<242, 4>>(0, 0, buf);
        buf[4..8].copy_from_slice(&ZST_SSRC.to_be_bytes());
        8
    }
    fn get_padding(&self) -> Option<u8> {
        None
    }
}
impl RtcpPacketWriter for ZstPadded {
    fn calculate_size(&self) -> Result<usize, RtcpWriteError> {
        Ok(12)
    }
    fn write_into_unchecked(&self, buf: &mut [u8]) -> usize {
        writer::write_header_unchecked::<Ext<242, 4>>(4, 0, buf);
        buf[4..8].copy_from_slice(&ZST_SSRC.to_be_bytes());
        8 + writer::write_padding_unchecked(4, &mut buf[8..])
    }
    fn get_padding(&self) -> Option<u8> {
        Some(4)
    }
}
/// the configurations of the Ext family that the zero-sized writers stand for
fn is_zst(pt: u8, min: usize, count: u8, ssrc: u32, words: &[u32], pad: u8) -> Option<bool> {
    if pt == 242 && min == 4 && count == 0 && ssrc == ZST_SSRC && words.is_empty() && (pad == 0 || pad == 4) {
        Some(pad == 4)
    } else {
        None
    }
}

pub fn add_ext<'a>(cb: CompoundBuilder<'a>, pt: u8, min: usize, count: u8, ssrc: u32, words: &[u32], pad: u8) -> CompoundBuilder<'a> {
    match is_zst(pt, min, count, ssrc, words, pad) {
        Some(true) => return cb.add_packet(ZstPadded),
        Some(false) => return cb.add_packet(ZstPlain),
        None => {}
    }
    macro_rules! go {
        ($PT:literal, $MIN:literal, ) => {
            cb.add_packet(ExtBuilder::<$PT, $MIN> { count, ssrc, words: words.to_vec(), padding: pad })
        };
    }
    dispatch!(pt, min, go,)
}

pub fn with_ext_writer(pt: u8, min: usize, count: u8, ssrc: u32, words: &[u32], pad: u8, f: &mut dyn FnMut(&dyn RtcpPacketWriter)) {
    macro_rules! go {
        ($PT:literal, $MIN:literal, ) => {
            f(&ExtBuilder::<$PT, $MIN> { count, ssrc, words: words.to_vec(), padding: pad })
        };
    }
    dispatch!(pt, min, go,)
}

/// `check_packet::<Ext<pt,min>>` alone.
pub fn ext_check(pt: u8, min: usize, bytes: &[u8]) -> Result<(), RtcpParseError> {
    macro_rules! go {
        ($PT:literal, $MIN:literal, ) => {
            parser::check_packet::<Ext<'_, $PT, $MIN>>(bytes)
        };
    }
    dispatch!(pt, min, go,)
}

pub fn ext_parse(pt: u8, min: usize, bytes: &[u8]) -> Result<ExtView, RtcpParseError> {
    macro_rules! go {
        ($PT:literal, $MIN:literal, ) => {
            Ext::<'_, $PT, $MIN>::parse(bytes).map(|e| view(&e))
        };
    }
    dispatch!(pt, min, go,)
}

/// `Packet::try_as::<Ext<pt,min>>()`
pub fn ext_from_packet(pt: u8, min: usize, p: &Packet<'_>) -> Result<ExtView, RtcpParseError> {
    macro_rules! go {
        ($PT:literal, $MIN:literal, ) => {
            p.try_as::<Ext<'_, $PT, $MIN>>().map(|e| view(&e))
        };
    }
    dispatch!(pt, min, go,)
}

/// `Unknown::try_as::<Ext<pt,min>>()`
pub fn ext_from_unknown(pt: u8, min: usize, u: &Unknown<'_>) -> Result<ExtView, RtcpParseError> {
    macro_rules! go {
        ($PT:literal, $MIN:literal, ) => {
            u.try_as::<Ext<'_, $PT, $MIN>>().map(|e| view(&e))
        };
    }
    dispatch!(pt, min, go,)
}

/// `utils::writer::write_header_unchecked::<Ext<pt,min>>(padding, count, buf)`
pub fn ext_write_header(pt: u8, min: usize, padding: u8, count: u8, buf: &mut [u8]) -> usize {
    macro_rules! go {
        ($PT:literal, $MIN:literal, ) => {
            writer::write_header_unchecked::<Ext<'_, $PT, $MIN>>(padding, count, buf)
        };
    }
    dispatch!(pt, min, go,)
}
