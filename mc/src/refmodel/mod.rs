pub mod model;
pub mod read;
pub mod repr;
pub mod wire;

use model::*;

/// The byte-exact vectors of the repository's own test-suite that the reference encoder must
/// reproduce (agreement with the maintainers' examples). (configuration, expected image)
pub fn suite_vectors() -> Vec<(Pkt, Vec<u8>)> {
    let rb = |ssrc| Rb { ssrc, ..Default::default() };
    vec![
        (Pkt::Bye { ssrcs: vec![], reason: String::new(), pad: 0 }, vec![0x80, 0xcb, 0x00, 0x00]),
        (
            Pkt::Bye { ssrcs: vec![0x12345678, 0x3456789a], reason: "Shutdown".into(), pad: 0 },
            vec![
                0x82, 0xcb, 0x00, 0x05, 0x12, 0x34, 0x56, 0x78, 0x34, 0x56, 0x78, 0x9a, 0x08, 0x53, 0x68, 0x75, 0x74, 0x64, 0x6f, 0x77, 0x6e, 0x00, 0x00, 0x00,
            ],
        ),
        (Pkt::Rr { ssrc: 0x1234567, blocks: vec![], pad: 0 }, vec![0x80, 0xc9, 0x00, 0x01, 0x01, 0x23, 0x45, 0x67]),
        (
            Pkt::App { ssrc: 0x91827364, subtype: 31, name: "name".into(), data: vec![1, 2, 3, 0], pad: 4 },
            vec![0xbf, 0xcc, 0x00, 0x04, 0x91, 0x82, 0x73, 0x64, 0x6e, 0x61, 0x6d, 0x65, 0x01, 0x02, 0x03, 0x00, 0x00, 0x00, 0x00, 0x04],
        ),
        (
            Pkt::Fb { kind: Kind::Payload, sender: 0x98765432, media: 0x10fedcba, fci: Fci::Sli(vec![(0x1234, 0x0987, 0x25)]), pad: 0 },
            vec![0x82, 0xce, 0x00, 0x03, 0x98, 0x76, 0x54, 0x32, 0x10, 0xfe, 0xdc, 0xba, 0x91, 0xa2, 0x61, 0xe5],
        ),
        (
            Pkt::Fb { kind: Kind::Payload, sender: 0x98765432, media: 0x10fedcba, fci: Fci::Rpsi { pt: 96, data: vec![0xf0], overrun: 4 }, pad: 0 },
            vec![0x83, 0xce, 0x00, 0x03, 0x98, 0x76, 0x54, 0x32, 0x10, 0xfe, 0xdc, 0xba, 0x0c, 0x60, 0xf0, 0x00],
        ),
        (
            Pkt::Fb { kind: Kind::Payload, sender: 0x98765432, media: 0, fci: Fci::Fir(vec![(0xfedcba98, 0x30)]), pad: 0 },
            vec![0x84, 0xce, 0x00, 0x04, 0x98, 0x76, 0x54, 0x32, 0x00, 0x00, 0x00, 0x00, 0xfe, 0xdc, 0xba, 0x98, 0x30, 0x00, 0x00, 0x00],
        ),
        (
            Pkt::Fb { kind: Kind::Transport, sender: 0x98765432, media: 0x10fedcba, fci: Fci::Nack((0..16).map(|i| 0x1234 + i).collect()), pad: 0 },
            vec![0x81, 0xcd, 0x00, 0x03, 0x98, 0x76, 0x54, 0x32, 0x10, 0xfe, 0xdc, 0xba, 0x12, 0x34, 0x7f, 0xff],
        ),
        (
            Pkt::Sdes {
                chunks: vec![Chunk {
                    ssrc: 0x12345678,
                    items: vec![Item::new(1, b"cname"), Item::new(2, "François".as_bytes()), Item::priv_(b"priv-prefix", b"priv-value")],
                }],
                pad: 0,
            },
            vec![
                0x81, 0xca, 0x00, 0x0c, 0x12, 0x34, 0x56, 0x78, 0x01, 0x05, 0x63, 0x6e, 0x61, 0x6d, 0x65, 0x02, 0x09, 0x46, 0x72, 0x61, 0x6e, 0xc3, 0xa7, 0x6f,
                0x69, 0x73, 0x08, 0x16, 0x0b, 0x70, 0x72, 0x69, 0x76, 0x2d, 0x70, 0x72, 0x65, 0x66, 0x69, 0x78, 0x70, 0x72, 0x69, 0x76, 0x2d, 0x76, 0x61, 0x6c,
                0x75, 0x65, 0x00, 0x00,
            ],
        ),
        (
            Pkt::Sdes {
                chunks: vec![
                    Chunk { ssrc: 0x12345678, items: vec![Item::new(1, b"cname"), Item::new(2, "François".as_bytes())] },
                    Chunk { ssrc: 0x3456789a, items: vec![Item::new(3, b"user@host"), Item::new(4, b"+33678901234")] },
                ],
                pad: 0,
            },
            vec![
                0x82, 0xca, 0x00, 0x0e, 0x12, 0x34, 0x56, 0x78, 0x01, 0x05, 0x63, 0x6e, 0x61, 0x6d, 0x65, 0x02, 0x09, 0x46, 0x72, 0x61, 0x6e, 0xc3, 0xa7, 0x6f,
                0x69, 0x73, 0x00, 0x00, 0x34, 0x56, 0x78, 0x9a, 0x03, 0x09, 0x75, 0x73, 0x65, 0x72, 0x40, 0x68, 0x6f, 0x73, 0x74, 0x04, 0x0c, 0x2b, 0x33, 0x33,
                0x36, 0x37, 0x38, 0x39, 0x30, 0x31, 0x32, 0x33, 0x34, 0x00, 0x00, 0x00,
            ],
        ),
        (
            Pkt::Fb { kind: Kind::Payload, sender: 0x98765432, media: 0x10fedcba, fci: Fci::Pli, pad: 0 },
            vec![0x81, 0xce, 0x00, 0x02, 0x98, 0x76, 0x54, 0x32, 0x10, 0xfe, 0xdc, 0xba],
        ),
        (
            Pkt::Rr { ssrc: 0x91827364, blocks: vec![rb(0x1234567), rb(0x1234568)], pad: 4 },
            {
                let mut v = vec![0xa2, 0xc9, 0x00, 0x0e, 0x91, 0x82, 0x73, 0x64];
                for s in [0x67u8, 0x68] {
                    v.extend_from_slice(&[0x01, 0x23, 0x45, s]);
                    v.extend_from_slice(&[0; 20]);
                }
                v.extend_from_slice(&[0, 0, 0, 4]);
                v
            },
        ),
    ]
}

/// Self-check of the reference model: it reproduces the suite's vectors and decodes its own output.
pub fn selfcheck() -> Result<usize, String> {
    let mut n = 0;
    for (p, img) in suite_vectors() {
        let e = wire::encode(&p);
        if e != img {
            return Err(format!("reference encoder disagrees with a suite vector for {:?}: {:02x?} vs {:02x?}", p, e, img));
        }
        n += 1;
    }
    Ok(n)
}

/// decode(encode(p)) == normalise(p) for a representable configuration.
pub fn roundtrip_ok(p: &Pkt) -> Result<(), String> {
    let e = wire::encode(p);
    match read::decode(&e) {
        Ok(q) => {
            let n = read::normalise(p);
            let same = match (&q, &n) {
                (Pkt::App { name: a, .. }, Pkt::App { name: b, .. }) if a != b => {
                    // names with embedded NULs decode only up to the first NUL; compare the rest
                    let mut q2 = q.clone();
                    if let Pkt::App { name, .. } = &mut q2 {
                        *name = b.clone();
                    }
                    b.contains('\0') && q2 == n
                }
                _ => q == n,
            };
            if same {
                Ok(())
            } else {
                Err(format!("reference decode(encode(x)) != x: {:?} -> {:02x?} -> {:?}", n, e, q))
            }
        }
        Err(m) => Err(format!("reference decoder rejects the reference encoder's image of {:?}: {}", p, m)),
    }
}
