//! Abstract packets / builder configurations. A value of these types may be unrepresentable
//! (padding 5, 32 blocks, ...): `repr::admissible` says which rules it violates, `wire::encode`
//! is only defined for representable ones. Nothing here refers to the crate under test.

use std::collections::BTreeMap;

#[derive(Clone, Debug, PartialEq, Eq, Hash, Default)]
pub struct Rb {
    pub ssrc: u32,
    pub fraction: u8,
    pub cum: u32,
    pub ext_seq: u32,
    pub jitter: u32,
    pub lsr: u32,
    pub dlsr: u32,
}

#[derive(Clone, Debug, PartialEq, Eq, Hash)]
pub struct Item {
    pub ty: u8,
    /// only meaningful for PRIV (type 8); ignored otherwise
    pub prefix: Vec<u8>,
    pub value: Vec<u8>,
}

impl Item {
    pub fn new(ty: u8, value: &[u8]) -> Item {
        Item { ty, prefix: Vec::new(), value: value.to_vec() }
    }
    pub fn priv_(prefix: &[u8], value: &[u8]) -> Item {
        Item { ty: 8, prefix: prefix.to_vec(), value: value.to_vec() }
    }
    /// the item as it appears on the wire (prefix dropped for non-PRIV)
    pub fn canonical(&self) -> Item {
        if self.ty == 8 {
            self.clone()
        } else {
            Item { ty: self.ty, prefix: Vec::new(), value: self.value.clone() }
        }
    }
    pub fn wire_len(&self) -> usize {
        if self.ty == 8 {
            3 + self.prefix.len() + self.value.len()
        } else {
            2 + self.value.len()
        }
    }
}

#[derive(Clone, Debug, PartialEq, Eq, Hash)]
pub struct Chunk {
    pub ssrc: u32,
    pub items: Vec<Item>,
}

impl Chunk {
    pub fn wire_len(&self) -> usize {
        let n: usize = 4 + self.items.iter().map(|i| i.wire_len()).sum::<usize>() + 1;
        (n + 3) & !3
    }
}

#[derive(Clone, Copy, Debug, PartialEq, Eq, Hash)]
pub enum Kind {
    Transport,
    Payload,
}

impl Kind {
    pub fn pt(self) -> u8 {
        match self {
            Kind::Transport => 205,
            Kind::Payload => 206,
        }
    }
}

#[derive(Clone, Debug, PartialEq, Eq, Hash)]
pub enum Fci {
    /// sequence numbers in the order they were added (repeats allowed); meaning: the set
    Nack(Vec<u16>),
    /// (ssrc, seq) in the order they were added; meaning: map, last one wins
    Fir(Vec<(u32, u8)>),
    Sli(Vec<(u16, u16, u8)>),
    Rpsi { pt: u8, data: Vec<u8>, overrun: u8 },
    Pli,
}

impl Fci {
    pub fn kind(&self) -> Kind {
        match self {
            Fci::Nack(_) => Kind::Transport,
            _ => Kind::Payload,
        }
    }
    pub fn format(&self) -> u8 {
        match self {
            Fci::Nack(_) => 1,
            Fci::Pli => 1,
            Fci::Sli(_) => 2,
            Fci::Rpsi { .. } => 3,
            Fci::Fir(_) => 4,
        }
    }
    pub fn name(&self) -> &'static str {
        match self {
            Fci::Nack(_) => "Nack",
            Fci::Pli => "Pli",
            Fci::Sli(_) => "Sli",
            Fci::Rpsi { .. } => "Rpsi",
            Fci::Fir(_) => "Fir",
        }
    }
    pub fn nack_set(v: &[u16]) -> Vec<u16> {
        let mut s = v.to_vec();
        s.sort_unstable();
        s.dedup();
        s
    }
    pub fn fir_map(v: &[(u32, u8)]) -> BTreeMap<u32, u8> {
        let mut m = BTreeMap::new();
        for (s, q) in v {
            m.insert(*s, *q);
        }
        m
    }
}

#[derive(Clone, Debug, PartialEq, Eq, Hash)]
pub enum Pkt {
    Sr { ssrc: u32, ntp: u64, rtp: u32, pc: u32, oc: u32, blocks: Vec<Rb>, pad: u8 },
    Rr { ssrc: u32, blocks: Vec<Rb>, pad: u8 },
    Sdes { chunks: Vec<Chunk>, pad: u8 },
    /// empty reason = no reason
    Bye { ssrcs: Vec<u32>, reason: String, pad: u8 },
    App { ssrc: u32, subtype: u8, name: String, data: Vec<u8>, pad: u8 },
    Fb { kind: Kind, sender: u32, media: u32, fci: Fci, pad: u8 },
    Unknown { pt: u8, count: u8, data: Vec<u8>, pad: u8 },
}

impl Pkt {
    pub fn pad(&self) -> u8 {
        match self {
            Pkt::Sr { pad, .. }
            | Pkt::Rr { pad, .. }
            | Pkt::Sdes { pad, .. }
            | Pkt::Bye { pad, .. }
            | Pkt::App { pad, .. }
            | Pkt::Fb { pad, .. }
            | Pkt::Unknown { pad, .. } => *pad,
        }
    }
    pub fn set_pad(&mut self, p: u8) {
        match self {
            Pkt::Sr { pad, .. }
            | Pkt::Rr { pad, .. }
            | Pkt::Sdes { pad, .. }
            | Pkt::Bye { pad, .. }
            | Pkt::App { pad, .. }
            | Pkt::Fb { pad, .. }
            | Pkt::Unknown { pad, .. } => *pad = p,
        }
    }
    pub fn type_name(&self) -> &'static str {
        match self {
            Pkt::Sr { .. } => "Sr",
            Pkt::Rr { .. } => "Rr",
            Pkt::Sdes { .. } => "Sdes",
            Pkt::Bye { .. } => "Bye",
            Pkt::App { .. } => "App",
            Pkt::Fb { kind: Kind::Transport, .. } => "TransportFb",
            Pkt::Fb { kind: Kind::Payload, .. } => "PayloadFb",
            Pkt::Unknown { .. } => "Unknown",
        }
    }
    /// name of the builder type that realises this configuration (used in violation keys)
    pub fn builder_name(&self) -> String {
        match self {
            Pkt::Fb { fci, .. } => format!("{}Builder+{}", self.type_name(), fci.name()),
            _ => format!("{}Builder", self.type_name()),
        }
    }
    /// Compact rendering for samples / replay files (long byte strings abbreviated).
    pub fn short(&self) -> String {
        let s = format!("{:?}", self);
        if s.len() <= 600 {
            s
        } else {
            let mut head: String = s.chars().take(400).collect();
            let tail: String = s.chars().rev().take(80).collect::<Vec<_>>().into_iter().rev().collect();
            head.push_str(&format!(" ...[{} chars]... ", s.len()));
            head.push_str(&tail);
            head
        }
    }
}

/// A compound member: a packet configuration, possibly wrapped, or a nested compound.
#[derive(Clone, Debug, PartialEq, Eq, Hash)]
pub enum Member {
    Plain(Pkt),
    /// through `PacketBuilder::from`
    Wrapped(Pkt),
    /// a third-party writer (Ext family) — see subject::ext
    Ext { pt: u8, min: usize, count: u8, ssrc: u32, words: Vec<u32>, pad: u8 },
    Nested(Vec<Member>),
}
