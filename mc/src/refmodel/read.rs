//! Independent reference readers: header facts, compound tiling, three-valued SDES tokeniser,
//! FCI decoders, and a strict decoder for well-formed packets (used to self-check the encoder).

use super::model::*;

pub fn rd16(b: &[u8], o: usize) -> u16 {
    ((b[o] as u16) << 8) | b[o + 1] as u16
}
pub fn rd32(b: &[u8], o: usize) -> u32 {
    ((b[o] as u32) << 24) | ((b[o + 1] as u32) << 16) | ((b[o + 2] as u32) << 8) | b[o + 3] as u32
}
pub fn rd64(b: &[u8], o: usize) -> u64 {
    ((rd32(b, o) as u64) << 32) | rd32(b, o + 4) as u64
}

#[derive(Clone, Copy, Debug, PartialEq, Eq)]
pub struct Header {
    pub version: u8,
    pub p: bool,
    pub count: u8,
    pub pt: u8,
    /// the size in bytes the length field announces: 4 * (L + 1)
    pub announced: usize,
}

pub fn header(b: &[u8]) -> Option<Header> {
    if b.len() < 4 {
        return None;
    }
    Some(Header {
        version: b[0] >> 6,
        p: b[0] & 0x20 != 0,
        count: b[0] & 0x1F,
        pt: b[1],
        announced: 4 * (rd16(b, 2) as usize + 1),
    })
}

/// Minimum packet size by packet type for the typed parsers (RFC fixed parts).
pub fn min_len(pt: u8) -> usize {
    match pt {
        200 => 28,
        201 => 8,
        202 => 4,
        203 => 4,
        204 => 12,
        205 | 206 => 12,
        _ => 4,
    }
}

/// The framing conditions of property C08 for a parser of type `pt` with minimum size `min`.
/// Returns the list of violated conditions (empty = well framed).
pub fn framing_defects(b: &[u8], pt: Option<u8>, min: usize) -> Vec<&'static str> {
    let mut d = Vec::new();
    if b.len() < min {
        d.push("shorter than the minimum size");
        if b.len() < 4 {
            return d;
        }
    }
    let h = header(b).unwrap();
    if h.version != 2 {
        d.push("version is not 2");
    }
    if let Some(pt) = pt {
        if h.pt != pt {
            d.push("packet type differs");
        }
    }
    if h.announced != b.len() {
        d.push("length field does not match the size");
    }
    if h.p && *b.last().unwrap() == 0 {
        d.push("padding bit with a zero count");
    }
    if let Some(pt) = pt {
        let need = match pt {
            200 => 28 + 24 * h.count as usize,
            201 => 8 + 24 * h.count as usize,
            203 => 4 + 4 * h.count as usize,
            _ => 0,
        };
        if b.len() < need {
            d.push("body too small for the count field");
        }
    }
    d
}

/// The conditions C08 gives the unknown-packet parser: size, version, length field. Nothing about the payload, of
/// which the last byte is a part.
pub fn unknown_framing_defects(b: &[u8]) -> Vec<&'static str> {
    let mut d = Vec::new();
    if b.len() < 4 {
        d.push("shorter than the minimum size");
        return d;
    }
    let h = header(b).unwrap();
    if h.version != 2 {
        d.push("version is not 2");
    }
    if h.announced != b.len() {
        d.push("length field does not match the size");
    }
    d
}

/// Reference compound tiling: Some(list of (start, end)) iff the input is non-empty and the chain
/// of length fields partitions it exactly into whole packets.
pub fn tile(b: &[u8]) -> Option<Vec<(usize, usize)>> {
    if b.is_empty() {
        return None;
    }
    let mut tiles = Vec::new();
    let mut off = 0usize;
    while off < b.len() {
        if b.len() - off < 4 {
            return None;
        }
        let l = 4 * (rd16(b, off + 2) as usize + 1);
        if l > b.len() - off {
            return None;
        }
        tiles.push((off, off + l));
        off += l;
    }
    Some(tiles)
}

// ---------------------------------------------------------------------------------------------
// SDES tokeniser (RFC 3550 section 6.5), three-valued.

#[derive(Clone, Copy, Debug, PartialEq, Eq)]
pub enum SdesClass {
    /// RFC-well-formed: the parser must accept and yield exactly `chunks`
    MustAccept,
    /// an item (or its length octet) overruns the chunk region, a PRIV prefix overruns its item,
    /// or a non-zero octet sits in a chunk's fill: the parser must reject
    MustReject,
    /// the RFC is silent (last chunk not null-terminated, SSRC-only tail, count field differing
    /// from the number of chunks): if accepted, the result must equal `chunks`
    Either,
    /// P set with a count that is not a multiple of four or exceeds the body: the chunk region
    /// itself is undefined; only the no-panic property applies
    Unconstrained,
}

#[derive(Clone, Debug)]
pub struct SdesTok {
    pub class: SdesClass,
    pub chunks: Vec<Chunk>,
    /// encoded length in bytes of each chunk (SSRC through the fill)
    pub chunk_lens: Vec<usize>,
    pub why: &'static str,
}

/// `pkt` must already be known to be framed as an SDES packet (version 2, PT 202, exact length,
/// P => last byte non-zero).
pub fn sdes_tokenise(pkt: &[u8]) -> SdesTok {
    let h = header(pkt).unwrap();
    let mut tok = SdesTok { class: SdesClass::MustAccept, chunks: Vec::new(), chunk_lens: Vec::new(), why: "" };
    let padn = if h.p { *pkt.last().unwrap() as usize } else { 0 };
    if h.p && (padn % 4 != 0 || padn > pkt.len() - 4 || padn == 0) {
        tok.class = SdesClass::Unconstrained;
        tok.why = "padding count not a multiple of 4 or larger than the body";
        return tok;
    }
    let r = &pkt[4..pkt.len() - padn];
    let mut pos = 0usize;
    let mut unterminated = false;
    while pos < r.len() {
        // r.len() and pos are multiples of 4, so an SSRC always fits
        let ssrc = rd32(r, pos);
        let mut items = Vec::new();
        let mut p = pos + 4;
        let end;
        loop {
            if p == r.len() {
                unterminated = true;
                end = p;
                break;
            }
            if r[p] == 0 {
                let e = (p + 1 + 3) & !3;
                // e <= r.len() because r.len() is a multiple of 4 and p < r.len()
                if r[p..e].iter().any(|&x| x != 0) {
                    tok.class = SdesClass::MustReject;
                    tok.why = "non-zero octet in a chunk's fill";
                    return tok;
                }
                end = e;
                break;
            }
            if p + 1 >= r.len() {
                tok.class = SdesClass::MustReject;
                tok.why = "item length octet lies outside the chunk region";
                return tok;
            }
            let ty = r[p];
            let l = r[p + 1] as usize;
            if p + 2 + l > r.len() {
                tok.class = SdesClass::MustReject;
                tok.why = "item overruns the chunk region";
                return tok;
            }
            let content = &r[p + 2..p + 2 + l];
            if ty == 8 {
                if l == 0 || 1 + content[0] as usize > l {
                    tok.class = SdesClass::MustReject;
                    tok.why = "PRIV prefix overruns its item";
                    return tok;
                }
                let pl = content[0] as usize;
                items.push(Item { ty, prefix: content[1..1 + pl].to_vec(), value: content[1 + pl..].to_vec() });
            } else {
                items.push(Item { ty, prefix: Vec::new(), value: content.to_vec() });
            }
            p += 2 + l;
        }
        tok.chunks.push(Chunk { ssrc, items });
        tok.chunk_lens.push(end - pos);
        pos = end;
        if unterminated {
            break;
        }
    }
    if unterminated {
        tok.class = SdesClass::Either;
        tok.why = "last chunk has no null terminator";
    } else if tok.chunks.len() != h.count as usize {
        tok.class = SdesClass::Either;
        tok.why = "source count field differs from the number of chunks";
    }
    tok
}

// ---------------------------------------------------------------------------------------------
// FCI reference decoders (RFC 4585 6.2.1, 6.3.1-6.3.3; RFC 5104 4.3.1)

/// Per 32-bit word in order: PID, then PID+k (mod 2^16) for every set bit k-1 of BLP, ascending k.
/// Trailing bytes that do not make a whole word are not an entry.
pub fn nack_unpack(fci: &[u8]) -> Vec<u16> {
    let mut out = Vec::new();
    for w in fci.chunks_exact(4) {
        let pid = rd16(w, 0);
        let blp = rd16(w, 2);
        out.push(pid);
        for k in 1..=16u16 {
            if blp & (1 << (k - 1)) != 0 {
                out.push(pid.wrapping_add(k));
            }
        }
    }
    out
}

pub fn fir_decode(fci: &[u8]) -> Vec<(u32, u8)> {
    fci.chunks_exact(8).map(|e| (rd32(e, 0), e[4])).collect()
}

pub fn sli_decode(fci: &[u8]) -> Vec<(u16, u16, u8)> {
    fci.chunks_exact(4)
        .map(|w| {
            let x = rd32(w, 0);
            ((x >> 19) as u16 & 0x1FFF, (x >> 6) as u16 & 0x1FFF, (x & 0x3F) as u8)
        })
        .collect()
}

/// (payload type, bit string bytes with whole padding bytes removed, ignored bits in the last byte);
/// None when PB announces more padding than there is bit string.
pub fn rpsi_decode(fci: &[u8]) -> Option<(u8, Vec<u8>, usize)> {
    if fci.len() < 2 {
        return None;
    }
    let pb = fci[0] as usize;
    let bytes = pb / 8;
    if bytes > fci.len() - 2 {
        return None;
    }
    Some((fci[1] & 0x7F, fci[2..fci.len() - bytes].to_vec(), pb % 8))
}

/// The bit string as a sequence of bits (for comparing RPSI content independently of how whole
/// ignored bytes are represented).
pub fn bits(bytes: &[u8], ignored: usize) -> Vec<bool> {
    let n = (bytes.len() * 8).saturating_sub(ignored);
    (0..n).map(|i| bytes[i / 8] & (0x80 >> (i % 8)) != 0).collect()
}

// ---------------------------------------------------------------------------------------------
// Strict decoder of well-formed packets (self-check of the encoder: decode(encode(x)) == norm(x))

pub fn decode_rb(b: &[u8]) -> Rb {
    Rb {
        ssrc: rd32(b, 0),
        fraction: b[4],
        cum: rd32(b, 4) & 0x00FF_FFFF,
        ext_seq: rd32(b, 8),
        jitter: rd32(b, 12),
        lsr: rd32(b, 16),
        dlsr: rd32(b, 20),
    }
}

pub fn decode(b: &[u8]) -> Result<Pkt, String> {
    let h = header(b).ok_or("short")?;
    if h.version != 2 || h.announced != b.len() {
        return Err("framing".into());
    }
    let pad = if h.p { *b.last().unwrap() } else { 0 };
    if h.p && (pad == 0 || pad % 4 != 0 || pad as usize > b.len() - min_len(h.pt).max(4)) {
        return Err("padding".into());
    }
    let end = b.len() - pad as usize;
    let c = h.count as usize;
    match h.pt {
        200 => {
            if end < 28 + 24 * c {
                return Err("sr body".into());
            }
            let blocks = (0..c).map(|i| decode_rb(&b[28 + 24 * i..52 + 24 * i])).collect();
            Ok(Pkt::Sr { ssrc: rd32(b, 4), ntp: rd64(b, 8), rtp: rd32(b, 16), pc: rd32(b, 20), oc: rd32(b, 24), blocks, pad })
        }
        201 => {
            if end < 8 + 24 * c {
                return Err("rr body".into());
            }
            let blocks = (0..c).map(|i| decode_rb(&b[8 + 24 * i..32 + 24 * i])).collect();
            Ok(Pkt::Rr { ssrc: rd32(b, 4), blocks, pad })
        }
        202 => {
            let t = sdes_tokenise(b);
            if t.class != SdesClass::MustAccept {
                return Err(format!("sdes: {}", t.why));
            }
            Ok(Pkt::Sdes { chunks: t.chunks, pad })
        }
        203 => {
            if end < 4 + 4 * c {
                return Err("bye body".into());
            }
            let ssrcs = (0..c).map(|i| rd32(b, 4 + 4 * i)).collect();
            let o = 4 + 4 * c;
            let reason = if o < end {
                let l = b[o] as usize;
                if o + 1 + l > end {
                    return Err("bye reason".into());
                }
                String::from_utf8(b[o + 1..o + 1 + l].to_vec()).map_err(|e| e.to_string())?
            } else {
                String::new()
            };
            Ok(Pkt::Bye { ssrcs, reason, pad })
        }
        204 => {
            if end < 12 {
                return Err("app body".into());
            }
            let nm: Vec<u8> = b[8..12].iter().copied().take_while(|&x| x != 0).collect();
            Ok(Pkt::App { ssrc: rd32(b, 4), subtype: h.count, name: String::from_utf8(nm).map_err(|e| e.to_string())?, data: b[12..end].to_vec(), pad })
        }
        205 | 206 => {
            if end < 12 {
                return Err("fb body".into());
            }
            let kind = if h.pt == 205 { Kind::Transport } else { Kind::Payload };
            let f = &b[12..end];
            let fci = match (kind, h.count) {
                (Kind::Transport, 1) => Fci::Nack(nack_unpack(f)),
                (Kind::Payload, 1) => Fci::Pli,
                (Kind::Payload, 2) => Fci::Sli(sli_decode(f)),
                (Kind::Payload, 3) => {
                    let (pt, data, ign) = rpsi_decode(f).ok_or("rpsi")?;
                    Fci::Rpsi { pt, data, overrun: ign as u8 }
                }
                (Kind::Payload, 4) => Fci::Fir(fir_decode(f)),
                _ => return Err("unknown fci".into()),
            };
            Ok(Pkt::Fb { kind, sender: rd32(b, 4), media: rd32(b, 8), fci, pad })
        }
        pt => Ok(Pkt::Unknown { pt, count: h.count, data: b[4..end].to_vec(), pad }),
    }
}

/// Canonical form of a representable configuration: what `decode(encode(p))` must return.
pub fn normalise(p: &Pkt) -> Pkt {
    let mut q = p.clone();
    match &mut q {
        Pkt::Sdes { chunks, .. } => {
            for c in chunks.iter_mut() {
                for it in c.items.iter_mut() {
                    *it = it.canonical();
                }
            }
        }
        Pkt::Fb { fci, .. } => match fci {
            Fci::Nack(v) => *v = Fci::nack_set(v),
            Fci::Fir(v) => *v = Fci::fir_map(v).into_iter().collect(),
            Fci::Rpsi { pt, data, overrun } => {
                *pt &= 0x7F;
                if !data.is_empty() {
                    let o = (*overrun).min(8) as u32;
                    let last = data.last_mut().unwrap();
                    *last = if o >= 8 { 0 } else { *last & (0xFFu16 << o) as u8 };
                    if *overrun >= 8 {
                        data.pop();
                        *overrun = 0;
                    }
                }
            }
            _ => {}
        },
        _ => {}
    }
    q
}
