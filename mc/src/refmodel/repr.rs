//! Representability predicate (property C16): for a configuration, the set of rule violations and,
//! per violation, the error values a builder may report for it.

use super::model::*;

/// Mirror of the crate's write-error vocabulary, owned by the reference model.
#[derive(Clone, Debug, PartialEq, Eq)]
pub enum WErr {
    OutputTooSmall(usize),
    InvalidPadding { padding: u8 },
    AppSubtypeOutOfRange { subtype: u8, max: u8 },
    InvalidName,
    DataLen32bitMultiple(usize),
    TooManySources { count: usize, max: u8 },
    ReasonLenTooLarge { len: usize, max: u8 },
    CumulativeLostTooLarge { value: u32, max: u32 },
    TooManyReportBlocks { count: usize, max: u8 },
    TooManySdesChunks { count: usize, max: u8 },
    SdesValueTooLarge { len: usize, max: u8 },
    SdesPrivPrefixTooLarge { len: usize, max: u8 },
    CountOutOfRange { count: u8, max: u8 },
    NonLastCompoundPacketPadding,
    MissingFci,
    TooManyNack,
    FciWrongFeedbackPacketType,
    PayloadTypeInvalid,
    PaddingBitsTooLarge,
    TooManyFir,
    /// any variant the reference does not know (kept as its Debug text)
    Other(String),
}

/// One violated rule: a stable name plus the error values that name it truthfully.
#[derive(Clone, Debug)]
pub struct Broken {
    pub rule: &'static str,
    pub admissible: Vec<WErr>,
}

pub const MAX_PACKET_BYTES: usize = 65536 * 4;

fn pad_rule(pad: u8, out: &mut Vec<Broken>) {
    if pad % 4 != 0 {
        out.push(Broken { rule: "padding-multiple-of-4", admissible: vec![WErr::InvalidPadding { padding: pad }] });
    }
}

fn blocks_rule(blocks: &[Rb], out: &mut Vec<Broken>) {
    if blocks.len() > 31 {
        out.push(Broken { rule: "at-most-31-report-blocks", admissible: vec![WErr::TooManyReportBlocks { count: blocks.len(), max: 31 }] });
    }
    let bad: Vec<WErr> = blocks.iter().filter(|b| b.cum > 0xFF_FFFF).map(|b| WErr::CumulativeLostTooLarge { value: b.cum, max: 0xFF_FFFF }).collect();
    if !bad.is_empty() {
        out.push(Broken { rule: "cumulative-lost-24-bits", admissible: bad });
    }
}

pub fn item_rules(it: &Item, out: &mut Vec<Broken>) {
    if it.ty == 8 {
        let (pl, vl) = (it.prefix.len(), it.value.len());
        if pl + vl > 254 {
            let mut adm = Vec::new();
            if pl > 254 {
                adm.push(WErr::SdesPrivPrefixTooLarge { len: pl, max: 254 });
            }
            // the value is what does not fit next to the prefix
            for max in [254usize.saturating_sub(pl), 254, 255] {
                adm.push(WErr::SdesValueTooLarge { len: vl, max: max as u8 });
            }
            if pl <= 254 {
                // naming the prefix as the offender is also truthful when prefix+value is too long
                adm.push(WErr::SdesPrivPrefixTooLarge { len: pl, max: 254 });
                adm.push(WErr::SdesPrivPrefixTooLarge { len: pl, max: 254u8.saturating_sub(vl.min(254) as u8) });
            }
            out.push(Broken { rule: "priv-prefix-plus-value-at-most-254", admissible: adm });
        }
    } else if it.value.len() > 255 {
        out.push(Broken { rule: "sdes-value-at-most-255", admissible: vec![WErr::SdesValueTooLarge { len: it.value.len(), max: 255 }] });
    }
}

pub fn fci_rules(fci: &Fci, out: &mut Vec<Broken>) {
    if let Fci::Rpsi { pt, data, overrun } = fci {
        if *pt > 127 {
            out.push(Broken { rule: "rpsi-payload-type-7-bits", admissible: vec![WErr::PayloadTypeInvalid] });
        }
        if *overrun > 8 || (data.is_empty() && *overrun > 0) {
            out.push(Broken { rule: "rpsi-ignored-bits", admissible: vec![WErr::PaddingBitsTooLarge] });
        }
    }
}

/// Size the packet would have on the wire, when its parts are individually legal.
fn nominal_size(p: &Pkt) -> usize {
    super::wire::encoded_len(p)
}

/// All rules of C16 that configuration `p` violates (empty = representable, must be accepted).
pub fn broken_rules(p: &Pkt) -> Vec<Broken> {
    let mut out = Vec::new();
    pad_rule(p.pad(), &mut out);
    match p {
        Pkt::Sr { blocks, .. } | Pkt::Rr { blocks, .. } => blocks_rule(blocks, &mut out),
        Pkt::Sdes { chunks, .. } => {
            if chunks.len() > 31 {
                out.push(Broken { rule: "at-most-31-chunks", admissible: vec![WErr::TooManySdesChunks { count: chunks.len(), max: 31 }] });
            }
            for c in chunks {
                for it in &c.items {
                    item_rules(it, &mut out);
                }
            }
        }
        Pkt::Bye { ssrcs, reason, .. } => {
            if ssrcs.len() > 31 {
                out.push(Broken { rule: "at-most-31-sources", admissible: vec![WErr::TooManySources { count: ssrcs.len(), max: 31 }] });
            }
            if reason.len() > 255 {
                out.push(Broken { rule: "reason-at-most-255", admissible: vec![WErr::ReasonLenTooLarge { len: reason.len(), max: 255 }] });
            }
        }
        Pkt::App { subtype, name, data, .. } => {
            if *subtype > 31 {
                out.push(Broken { rule: "subtype-at-most-31", admissible: vec![WErr::AppSubtypeOutOfRange { subtype: *subtype, max: 31 }] });
            }
            if name.len() > 4 || !name.is_ascii() {
                out.push(Broken { rule: "app-name-4-ascii", admissible: vec![WErr::InvalidName] });
            }
            if data.len() % 4 != 0 {
                out.push(Broken { rule: "app-payload-multiple-of-4", admissible: vec![WErr::DataLen32bitMultiple(data.len())] });
            }
        }
        Pkt::Fb { kind, fci, .. } => {
            if fci.kind() != *kind {
                out.push(Broken { rule: "fci-in-matching-feedback-kind", admissible: vec![WErr::FciWrongFeedbackPacketType] });
            }
            fci_rules(fci, &mut out);
        }
        Pkt::Unknown { count, data, .. } => {
            if *count > 31 {
                out.push(Broken { rule: "count-at-most-31", admissible: vec![WErr::CountOutOfRange { count: *count, max: 31 }] });
            }
            if data.len() % 4 != 0 {
                out.push(Broken { rule: "unknown-payload-multiple-of-4", admissible: vec![WErr::DataLen32bitMultiple(data.len())] });
            }
        }
    }
    if out.is_empty() && nominal_size(p) > MAX_PACKET_BYTES {
        let adm = match p {
            Pkt::Fb { fci: Fci::Fir(_), .. } => vec![WErr::TooManyFir],
            Pkt::Fb { fci: Fci::Nack(_), .. } => vec![WErr::TooManyNack],
            // the error vocabulary has no dedicated "packet too large" value; any error is
            // admissible as long as the configuration is not accepted
            _ => Vec::new(),
        };
        out.push(Broken { rule: "total-size-at-most-65536-words", admissible: adm });
    }
    out
}

pub fn representable(p: &Pkt) -> bool {
    broken_rules(p).is_empty()
}

/// Verdict on what a builder returned for configuration `p`.
pub enum Verdict {
    Ok,
    /// accepted although a rule is violated
    WronglyAccepted(&'static str),
    /// rejected although representable
    WronglyRejected,
    /// rejected, but the error names no violated rule (or carries a wrong value)
    WrongError(String),
}

pub fn judge(broken: &[Broken], result: &Result<usize, WErr>) -> Verdict {
    match (broken.is_empty(), result) {
        (true, Ok(_)) => Verdict::Ok,
        (true, Err(_)) => Verdict::WronglyRejected,
        (false, Ok(_)) => Verdict::WronglyAccepted(broken[0].rule),
        (false, Err(e)) => {
            for b in broken {
                if b.admissible.is_empty() || b.admissible.contains(e) {
                    return Verdict::Ok;
                }
            }
            Verdict::WrongError(format!("{:?} names none of the violated rules {:?}", e, broken.iter().map(|b| b.rule).collect::<Vec<_>>()))
        }
    }
}
