//! Independent RFC 3550 / 4585 / 5104 encoder: abstract packet -> bytes. Written from the RFC
//! figures only (plain pushes and offset arithmetic); shares no code or constants with the crate.

use super::model::*;

fn be16(v: &mut Vec<u8>, x: u16) {
    v.push((x >> 8) as u8);
    v.push(x as u8);
}
fn be32(v: &mut Vec<u8>, x: u32) {
    v.push((x >> 24) as u8);
    v.push((x >> 16) as u8);
    v.push((x >> 8) as u8);
    v.push(x as u8);
}
fn be64(v: &mut Vec<u8>, x: u64) {
    be32(v, (x >> 32) as u32);
    be32(v, x as u32);
}

/// RFC 3550 section 6.4.1 report block
pub fn encode_rb(v: &mut Vec<u8>, b: &Rb) {
    be32(v, b.ssrc);
    v.push(b.fraction);
    v.push((b.cum >> 16) as u8);
    v.push((b.cum >> 8) as u8);
    v.push(b.cum as u8);
    be32(v, b.ext_seq);
    be32(v, b.jitter);
    be32(v, b.lsr);
    be32(v, b.dlsr);
}

/// RFC 3550 section 6.5: one SDES item
pub fn encode_item(v: &mut Vec<u8>, it: &Item) {
    v.push(it.ty);
    if it.ty == 8 {
        // PRIV: length covers prefix-length octet + prefix + value
        v.push((1 + it.prefix.len() + it.value.len()) as u8);
        v.push(it.prefix.len() as u8);
        v.extend_from_slice(&it.prefix);
        v.extend_from_slice(&it.value);
    } else {
        v.push(it.value.len() as u8);
        v.extend_from_slice(&it.value);
    }
}

/// One SDES chunk: SSRC, items, one or more null octets up to the next 32-bit boundary.
pub fn encode_chunk(v: &mut Vec<u8>, c: &Chunk) {
    let start = v.len();
    be32(v, c.ssrc);
    for it in &c.items {
        encode_item(v, it);
    }
    v.push(0);
    while (v.len() - start) % 4 != 0 {
        v.push(0);
    }
}

/// Minimal strictly-increasing (PID, BLP) packing of a set (greedy from the smallest value;
/// a word covers PID..=PID+16 without wrapping, so decoding is ascending).
pub fn nack_pack(set_sorted: &[u16]) -> Vec<(u16, u16)> {
    let mut out = Vec::new();
    let mut i = 0;
    while i < set_sorted.len() {
        let pid = set_sorted[i];
        let mut blp: u16 = 0;
        i += 1;
        while i < set_sorted.len() {
            let d = set_sorted[i] as u32 - pid as u32;
            if d > 16 {
                break;
            }
            blp |= 1 << (d - 1);
            i += 1;
        }
        out.push((pid, blp));
    }
    out
}

/// FCI bytes (RFC 4585 6.2.1, 6.3.1-6.3.3; RFC 5104 4.3.1). FIR entries in ascending SSRC order.
pub fn encode_fci(fci: &Fci) -> Vec<u8> {
    let mut v = Vec::new();
    match fci {
        Fci::Nack(seqs) => {
            for (pid, blp) in nack_pack(&Fci::nack_set(seqs)) {
                be16(&mut v, pid);
                be16(&mut v, blp);
            }
        }
        Fci::Fir(entries) => {
            for (ssrc, seq) in Fci::fir_map(entries) {
                be32(&mut v, ssrc);
                v.push(seq);
                v.extend_from_slice(&[0, 0, 0]);
            }
        }
        Fci::Sli(entries) => {
            for (first, number, pic) in entries {
                let w: u32 = ((*first as u32 & 0x1FFF) << 19) | ((*number as u32 & 0x1FFF) << 6) | (*pic as u32 & 0x3F);
                be32(&mut v, w);
            }
        }
        Fci::Rpsi { pt, data, overrun } => {
            let body = 2 + data.len();
            let fill = (4 - body % 4) % 4;
            v.push((8 * fill + *overrun as usize) as u8);
            v.push(*pt & 0x7F);
            v.extend_from_slice(data);
            if let Some(last) = v.last_mut().filter(|_| !data.is_empty()) {
                // the ignored trailing bits are padding bits, i.e. zero
                let keep = 8 - (*overrun as u32).min(8);
                let mask: u8 = if keep == 0 { 0 } else { (0xFFu16 << (8 - keep)) as u8 };
                *last &= mask;
            }
            for _ in 0..fill {
                v.push(0);
            }
        }
        Fci::Pli => {}
    }
    v
}

/// Body (everything after the 4-byte common header, before padding) and the 5-bit count field.
fn body(p: &Pkt) -> (u8, u8, Vec<u8>) {
    let mut v = Vec::with_capacity(body_len(p) + p.pad() as usize + 8);
    match p {
        Pkt::Sr { ssrc, ntp, rtp, pc, oc, blocks, .. } => {
            be32(&mut v, *ssrc);
            be64(&mut v, *ntp);
            be32(&mut v, *rtp);
            be32(&mut v, *pc);
            be32(&mut v, *oc);
            for b in blocks {
                encode_rb(&mut v, b);
            }
            (200, blocks.len() as u8, v)
        }
        Pkt::Rr { ssrc, blocks, .. } => {
            be32(&mut v, *ssrc);
            for b in blocks {
                encode_rb(&mut v, b);
            }
            (201, blocks.len() as u8, v)
        }
        Pkt::Sdes { chunks, .. } => {
            for c in chunks {
                encode_chunk(&mut v, c);
            }
            (202, chunks.len() as u8, v)
        }
        Pkt::Bye { ssrcs, reason, .. } => {
            for s in ssrcs {
                be32(&mut v, *s);
            }
            if !reason.is_empty() {
                v.push(reason.len() as u8);
                v.extend_from_slice(reason.as_bytes());
                while v.len() % 4 != 0 {
                    v.push(0);
                }
            }
            (203, ssrcs.len() as u8, v)
        }
        Pkt::App { ssrc, subtype, name, data, .. } => {
            be32(&mut v, *ssrc);
            let nb = name.as_bytes();
            for i in 0..4 {
                v.push(if i < nb.len() { nb[i] } else { 0 });
            }
            v.extend_from_slice(data);
            (204, *subtype, v)
        }
        Pkt::Fb { kind, sender, media, fci, .. } => {
            be32(&mut v, *sender);
            be32(&mut v, *media);
            v.extend_from_slice(&encode_fci(fci));
            (kind.pt(), fci.format(), v)
        }
        Pkt::Unknown { pt, count, data, .. } => {
            v.extend_from_slice(data);
            (*pt, *count, v)
        }
    }
}

/// Length of the body in bytes, computed arithmetically (no image is built).
pub fn body_len(p: &Pkt) -> usize {
    match p {
        Pkt::Sr { blocks, .. } => 24 + 24 * blocks.len(),
        Pkt::Rr { blocks, .. } => 4 + 24 * blocks.len(),
        Pkt::Sdes { chunks, .. } => chunks.iter().map(|c| c.wire_len()).sum(),
        Pkt::Bye { ssrcs, reason, .. } => 4 * ssrcs.len() + if reason.is_empty() { 0 } else { (1 + reason.len() + 3) & !3 },
        Pkt::App { data, .. } => 8 + data.len(),
        Pkt::Fb { fci, .. } => {
            8 + match fci {
                Fci::Nack(v) => 4 * nack_pack(&Fci::nack_set(v)).len(),
                Fci::Fir(v) => 8 * Fci::fir_map(v).len(),
                Fci::Sli(v) => 4 * v.len(),
                Fci::Rpsi { data, .. } => (2 + data.len() + 3) & !3,
                Fci::Pli => 0,
            }
        }
        Pkt::Unknown { data, .. } => data.len(),
    }
}

/// Size in bytes of the encoded packet (defined for any configuration).
pub fn encoded_len(p: &Pkt) -> usize {
    4 + body_len(p) + p.pad() as usize
}

/// The RFC image of a representable packet.
pub fn encode(p: &Pkt) -> Vec<u8> {
    let (pt, count, b) = body(p);
    let pad = p.pad() as usize;
    let total = 4 + b.len() + pad;
    debug_assert!(total % 4 == 0, "encode() called on an unaligned configuration");
    debug_assert!(b.len() == body_len(p), "body_len() disagrees with body()");
    let mut v = Vec::with_capacity(total);
    v.push(0x80 | if pad > 0 { 0x20 } else { 0 } | (count & 0x1F));
    v.push(pt);
    be16(&mut v, (total / 4 - 1) as u16);
    v.extend_from_slice(&b);
    if pad > 0 {
        for _ in 0..pad - 1 {
            v.push(0);
        }
        v.push(pad as u8);
    }
    v
}

/// RFC 3550 section 6.4.1 padding applied to an unpadded, well-formed packet image:
/// set P, enlarge the length field by n/4 words, append n-1 zero octets and the count n.
pub fn pad_packet(p: &[u8], n: u8) -> Vec<u8> {
    assert!(n > 0 && n % 4 == 0 && p.len() >= 4 && p[0] & 0x20 == 0);
    let mut v = p.to_vec();
    v[0] |= 0x20;
    let words = ((v[2] as usize) << 8 | v[3] as usize) + n as usize / 4;
    v[2] = (words >> 8) as u8;
    v[3] = words as u8;
    for _ in 0..n - 1 {
        v.push(0);
    }
    v.push(n);
    v
}

/// Image of a third-party `Ext` packet (subject::ext): header, SSRC, payload words, padding.
pub fn encode_ext(pt: u8, count: u8, ssrc: u32, words: &[u32], pad: u8) -> Vec<u8> {
    let mut data = Vec::new();
    be32(&mut data, ssrc);
    for w in words {
        be32(&mut data, *w);
    }
    encode(&Pkt::Unknown { pt, count, data, pad })
}

/// Concatenated image of a member list (nested compounds flattened).
pub fn encode_members(ms: &[Member]) -> Vec<u8> {
    let mut v = Vec::new();
    for m in ms {
        match m {
            Member::Plain(p) | Member::Wrapped(p) => v.extend_from_slice(&encode(p)),
            Member::Ext { pt, count, ssrc, words, pad, .. } => v.extend_from_slice(&encode_ext(*pt, *count, *ssrc, words, *pad)),
            Member::Nested(inner) => v.extend_from_slice(&encode_members(inner)),
        }
    }
    v
}
