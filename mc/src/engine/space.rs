//! Mixed-radix product spaces: index <-> coordinate tuple bijection.

#[derive(Clone, Debug)]
pub struct Radix {
    pub dims: Vec<u64>,
}

impl Radix {
    pub fn new(dims: &[u64]) -> Radix {
        Radix { dims: dims.to_vec() }
    }
    pub fn len(&self) -> u64 {
        let mut n: u64 = 1;
        for d in &self.dims {
            n = n.checked_mul(*d).expect("space size overflows u64");
        }
        n
    }
    /// coordinates of `idx`; dimension 0 varies fastest
    #[inline]
    pub fn decode(&self, mut idx: u64, out: &mut [u64]) {
        for (i, d) in self.dims.iter().enumerate() {
            out[i] = idx % d;
            idx /= d;
        }
    }
    pub fn coords(&self, idx: u64) -> Vec<u64> {
        let mut v = vec![0; self.dims.len()];
        self.decode(idx, &mut v);
        v
    }
    pub fn encode(&self, c: &[u64]) -> u64 {
        let mut idx = 0u64;
        for i in (0..self.dims.len()).rev() {
            idx = idx * self.dims[i] + c[i];
        }
        idx
    }
}

/// Number of sequences of length 0..=depth over an alphabet of size k, and index -> sequence.
pub fn seq_count(k: u64, depth: u32) -> u64 {
    let mut n = 0u64;
    let mut p = 1u64;
    for _ in 0..=depth {
        n += p;
        p *= k;
    }
    n
}

pub fn seq_decode(k: u64, mut idx: u64) -> Vec<u64> {
    // sequences ordered by length, then lexicographic (little-endian digits)
    let mut len = 0u32;
    let mut p = 1u64;
    while idx >= p {
        idx -= p;
        p *= k;
        len += 1;
    }
    let mut v = Vec::with_capacity(len as usize);
    for _ in 0..len {
        v.push(idx % k);
        idx /= k;
    }
    v
}

/// The "walk" alphabets of DESIGN.md section 1.2.
pub fn u32_walk() -> Vec<u32> {
    let mut v = vec![0u32, 0xFFFF_FFFF];
    for k in 0..32 {
        v.push(1u32 << k);
    }
    for k in 0..32 {
        v.push(!(1u32 << k));
    }
    v.extend_from_slice(&[0x0102_0304, 0x00FF_FFFF, 0x0000_00FF, 0xFF00_0000]);
    // one zero byte / one 0xFF byte in each position, the byte-wise sign patterns, and values that read like the
    // first bytes of an RTCP header
    v.extend_from_slice(&[0xFF00_FFFF, 0xFFFF_00FF, 0xFFFF_FF00, 0x00FF_0000, 0x0000_FF00, 0x8080_8080, 0x7F7F_7F7F, 0x80C8_0006, 0x81CA_0001]);
    v
}
pub fn u64_walk() -> Vec<u64> {
    let mut v = vec![0u64, u64::MAX];
    for k in 0..64 {
        v.push(1u64 << k);
    }
    for k in 0..64 {
        v.push(!(1u64 << k));
    }
    v.extend_from_slice(&[0x0102_0304_0506_0708, 0x00FF_FFFF_FFFF_FFFF, 0xFF, 0xFF00_0000_0000_0000]);
    // the two halves (NTP seconds / fraction) separately all-ones and all-zero, byte holes, sign patterns
    v.extend_from_slice(&[0xFFFF_FFFF_0000_0000, 0x0000_0000_FFFF_FFFF, 0xFFFF_FF00_FFFF_FFFF, 0xFFFF_FFFF_00FF_FFFF, 0x8080_8080_8080_8080, 0x7FFF_FFFF_8000_0000]);
    v
}
pub fn u24_walk() -> Vec<u32> {
    let mut v = vec![0u32, 0xFF_FFFF];
    for k in 0..24 {
        v.push(1u32 << k);
    }
    for k in 0..24 {
        v.push(0xFF_FFFF & !(1u32 << k));
    }
    v.extend_from_slice(&[0x01_0203, 0x00_FFFF, 0xFF, 0xFF_0000]);
    v
}
pub fn u16_walk() -> Vec<u16> {
    let mut v = vec![0u16, 0xFFFF];
    for k in 0..16 {
        v.push(1u16 << k);
    }
    for k in 0..16 {
        v.push(!(1u16 << k));
    }
    v.extend_from_slice(&[0x0102, 0x00FF, 0xFF00]);
    v
}
pub fn u13_walk() -> Vec<u16> {
    let mut v = vec![0u16, 0x1FFF];
    for k in 0..13 {
        v.push(1u16 << k);
    }
    for k in 0..13 {
        v.push(0x1FFF & !(1u16 << k));
    }
    v.extend_from_slice(&[0x0102, 0x00FF, 0x1F00]);
    v
}
pub fn u6_walk() -> Vec<u8> {
    let mut v = vec![0u8, 0x3F];
    for k in 0..6 {
        v.push(1u8 << k);
    }
    for k in 0..6 {
        v.push(0x3F & !(1u8 << k));
    }
    v
}
pub const U32_EDGE: [u32; 8] = [0, 1, 0xFF, 0x00FF_FFFF, 0x0102_0304, 0x8000_0000, 0xFF00_0000, 0xFFFF_FFFF];
pub const PAD_EDGE: [u8; 4] = [0, 4, 8, 252];
pub const PAD_BAD: [u8; 9] = [1, 2, 3, 5, 6, 7, 253, 254, 255];
pub fn pad_all() -> Vec<u8> {
    (0..64u32).map(|k| (k * 4) as u8).collect()
}

pub const B12: [u8; 12] = [0x00, 0x01, 0x02, 0x03, 0x04, 0x08, 0x1F, 0x20, 0x7F, 0x80, 0xFE, 0xFF];
pub fn b26() -> Vec<u8> {
    let mut v = B12.to_vec();
    v.extend_from_slice(&[0x05, 0x07, 0x09, 0x3F, 0x81, 0xA0, 0xBF, 0xC8, 0xC9, 0xCA, 0xCB, 0xCC, 0xCD, 0xCE]);
    v
}

/// Deterministic text of exactly `n` bytes mixing 1-, 2-, 3- and 4-byte UTF-8 scalars (and NUL when
/// `with_nul`), so that byte length and char count differ. `salt` varies the content.
pub fn text(n: usize, salt: u64, with_nul: bool) -> String {
    const ONE: [&str; 6] = ["a", "Z", "0", " ", "~", "\u{1}"];
    const TWO: [&str; 3] = ["é", "ß", "\u{80}"];
    const THREE: [&str; 3] = ["€", "あ", "\u{FFFD}"];
    const FOUR: [&str; 2] = ["😀", "\u{10FFFF}"];
    let mut s = String::with_capacity(n);
    let mut k = salt;
    while s.len() < n {
        let left = n - s.len();
        k = k.wrapping_mul(6364136223846793005).wrapping_add(1442695040888963407);
        let r = (k >> 33) as usize;
        let pick = r % 8;
        if with_nul && r % 11 == 0 {
            s.push('\0');
        } else if pick == 7 && left >= 4 {
            s.push_str(FOUR[r / 8 % 2]);
        } else if pick == 6 && left >= 3 {
            s.push_str(THREE[r / 8 % 3]);
        } else if pick >= 4 && left >= 2 {
            s.push_str(TWO[r / 8 % 3]);
        } else {
            s.push_str(ONE[r / 8 % 6]);
        }
    }
    debug_assert_eq!(s.len(), n);
    s
}
