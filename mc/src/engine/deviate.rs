//! k-deviation product spaces: all assignments to n small-domain fields in which at most k fields
//! depart from their default value. The sequential analogue of a preemption bound.

#[derive(Clone, Debug)]
pub struct Dev {
    dims: Vec<u64>,
    /// (fields of the subset, number of assignments, offset of the block)
    blocks: Vec<(Vec<usize>, u64, u64)>,
    total: u64,
}

impl Dev {
    /// `dims[i]` = number of non-default values of field i; at most `k` fields deviate.
    pub fn new(dims: &[u64], k: usize) -> Dev {
        let n = dims.len();
        let mut blocks = Vec::new();
        let mut total = 0u64;
        let mut subset: Vec<usize> = Vec::new();
        fn rec(start: usize, n: usize, k: usize, dims: &[u64], subset: &mut Vec<usize>, blocks: &mut Vec<(Vec<usize>, u64, u64)>, total: &mut u64) {
            let size: u64 = subset.iter().map(|&f| dims[f]).product();
            blocks.push((subset.clone(), size, *total));
            *total += size;
            if subset.len() == k {
                return;
            }
            for f in start..n {
                if dims[f] == 0 {
                    continue;
                }
                subset.push(f);
                rec(f + 1, n, k, dims, subset, blocks, total);
                subset.pop();
            }
        }
        rec(0, n, k, dims, &mut subset, &mut blocks, &mut total);
        // order blocks by subset size so that index 0 is "no deviation", then singles, then pairs ...
        blocks.sort_by_key(|b| b.0.len());
        let mut off = 0;
        for b in blocks.iter_mut() {
            b.2 = off;
            off += b.1;
        }
        Dev { dims: dims.to_vec(), blocks, total }
    }
    pub fn len(&self) -> u64 {
        self.total
    }
    /// per field: None = default, Some(i) = i-th non-default value
    pub fn decode(&self, idx: u64) -> Vec<Option<u64>> {
        let mut out = vec![None; self.dims.len()];
        // binary search for the block
        let (mut lo, mut hi) = (0usize, self.blocks.len());
        while lo + 1 < hi {
            let mid = (lo + hi) / 2;
            if self.blocks[mid].2 <= idx {
                lo = mid;
            } else {
                hi = mid;
            }
        }
        let b = &self.blocks[lo];
        let mut r = idx - b.2;
        for &f in &b.0 {
            out[f] = Some(r % self.dims[f]);
            r /= self.dims[f];
        }
        out
    }
}

#[cfg(test)]
mod tests {
    use super::*;
    #[test]
    fn counts() {
        let d = Dev::new(&[2, 3, 4], 2);
        assert_eq!(d.len(), 1 + 9 + 6 + 8 + 12);
        let mut seen = std::collections::BTreeSet::new();
        for i in 0..d.len() {
            assert!(seen.insert(d.decode(i)));
        }
    }
}
