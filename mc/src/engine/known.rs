//! known_findings.txt: `known: property=<id> key=<stable-key> <what fails>` suppresses exactly the
//! violations whose classification key equals <stable-key> (printing KNOWN-FINDING instead);
//! `fixed: property=<id> <commit> <what failed>` is a record only and suppresses nothing.
//! The file is read-only for the checks.

pub struct Known {
    entries: Vec<(String, String, String)>, // property, key, text
}

impl Known {
    pub fn load(path: &str) -> Known {
        let mut entries = Vec::new();
        if let Ok(src) = std::fs::read_to_string(path) {
            for line in src.lines() {
                let line = line.trim();
                if let Some(rest) = line.strip_prefix("known:") {
                    let mut prop = None;
                    let mut key = None;
                    let mut text = Vec::new();
                    for tok in rest.split_whitespace() {
                        if prop.is_none() && tok.starts_with("property=") {
                            prop = Some(tok["property=".len()..].to_string());
                        } else if key.is_none() && tok.starts_with("key=") {
                            key = Some(tok["key=".len()..].to_string());
                        } else {
                            text.push(tok);
                        }
                    }
                    if let (Some(p), Some(k)) = (prop, key) {
                        entries.push((p, k, text.join(" ")));
                    }
                }
            }
        }
        Known { entries }
    }
    pub fn keys_for(&self, prop: &str) -> Vec<String> {
        self.entries.iter().filter(|e| e.0 == prop).map(|e| e.1.clone()).collect()
    }
    pub fn matches(&self, prop: &str, key: &str) -> Option<String> {
        self.entries.iter().find(|e| e.0 == prop && e.1 == key).map(|e| e.2.clone())
    }
}
