//! The exploration driver: index-addressed spaces, 16-way parallel enumeration, per-case
//! containment, violation classification / de-duplication, known-findings, evidence, replay.

use super::guard::{self, PanicInfo};
use super::json::J;
use super::known::Known;
use std::collections::BTreeMap;
use std::sync::atomic::{AtomicBool, AtomicU64, Ordering::*};
use std::sync::Arc;
use std::time::{Duration, Instant};

#[derive(Clone, Copy, PartialEq, Eq, Debug)]
pub enum Tier {
    Quick,
    Thorough,
}

impl Tier {
    pub fn name(self) -> &'static str {
        match self {
            Tier::Quick => "quick",
            Tier::Thorough => "thorough",
        }
    }
    pub fn pick<T>(self, q: T, t: T) -> T {
        match self {
            Tier::Quick => q,
            Tier::Thorough => t,
        }
    }
}

/// Lock-free bitmap used to count distinct fingerprints (collisions only undercount).
pub struct Bitmap {
    words: Vec<AtomicU64>,
    mask: u64,
}

impl Bitmap {
    pub fn new(bits_log2: u32) -> Self {
        let n = 1usize << (bits_log2 - 6);
        let mut words = Vec::with_capacity(n);
        words.resize_with(n, || AtomicU64::new(0));
        Bitmap { words, mask: (1u64 << bits_log2) - 1 }
    }
    /// true if the fingerprint was not present before
    #[inline]
    pub fn insert(&self, fp: u64) -> bool {
        let b = mix(fp) & self.mask;
        let w = &self.words[(b >> 6) as usize];
        let bit = 1u64 << (b & 63);
        if w.load(Relaxed) & bit != 0 {
            return false;
        }
        w.fetch_or(bit, Relaxed) & bit == 0
    }
}

#[inline]
pub fn mix(mut x: u64) -> u64 {
    x ^= x >> 33;
    x = x.wrapping_mul(0xff51afd7ed558ccd);
    x ^= x >> 33;
    x = x.wrapping_mul(0xc4ceb9fe1a85ec53);
    x ^= x >> 33;
    x
}

/// 64-bit fingerprint of a byte string (FNV-1a folded through `mix`)
#[inline]
pub fn fp_bytes(b: &[u8]) -> u64 {
    let mut h: u64 = 0xcbf29ce484222325;
    for &x in b {
        h ^= x as u64;
        h = h.wrapping_mul(0x100000001b3);
    }
    mix(h ^ (b.len() as u64).wrapping_mul(0x9e3779b97f4a7c15))
}

/// Fingerprint of a value's Debug rendering, hashed as it is produced (nothing is allocated).
pub fn fp_debug<T: std::fmt::Debug>(x: &T) -> u64 {
    struct H(u64, u64);
    impl std::fmt::Write for H {
        fn write_str(&mut self, s: &str) -> std::fmt::Result {
            for &b in s.as_bytes() {
                self.0 ^= b as u64;
                self.0 = self.0.wrapping_mul(0x100000001b3);
            }
            self.1 += s.len() as u64;
            Ok(())
        }
    }
    use std::fmt::Write;
    let mut h = H(0xcbf29ce484222325, 0);
    let _ = write!(h, "{:?}", x);
    mix(h.0 ^ h.1.wrapping_mul(0x9e3779b97f4a7c15))
}

#[inline]
pub fn fp_combine(a: u64, b: u64) -> u64 {
    mix(a.rotate_left(23) ^ b.wrapping_mul(0x9e3779b97f4a7c15))
}

#[derive(Clone, Debug)]
pub struct Violation {
    pub key: String,
    pub space: String,
    pub idx: u64,
    pub case: String,
    pub detail: String,
    pub count: u64,
}

/// Per-worker accumulator handed to every case.
pub struct Local {
    pub evals: u64,
    pub states: u64,
    pub transitions: u64,
    pub validated: u64,
    pub nontrivial: u64,
    pub hist: BTreeMap<&'static str, u64>,
    pub hist_dyn: BTreeMap<String, u64>,
    pub violations: BTreeMap<String, Violation>,
    pub samples: Vec<(u64, String)>,
    pub sample_wanted: bool,
    pub replay: bool,
    pub seed: u64,
    pub tier: Tier,
    pub cur_space: String,
    pub cur_idx: u64,
    bitmap: Arc<Bitmap>,
}

impl Local {
    pub fn new(bitmap: Arc<Bitmap>, seed: u64, tier: Tier, replay: bool) -> Self {
        Local {
            evals: 0,
            states: 0,
            transitions: 0,
            validated: 0,
            nontrivial: 0,
            hist: BTreeMap::new(),
            hist_dyn: BTreeMap::new(),
            violations: BTreeMap::new(),
            samples: Vec::new(),
            sample_wanted: false,
            replay,
            seed,
            tier,
            cur_space: String::new(),
            cur_idx: 0,
            bitmap,
        }
    }
    #[inline]
    pub fn hit(&mut self, k: &'static str) {
        *self.hist.entry(k).or_insert(0) += 1;
    }
    #[inline]
    pub fn hit_n(&mut self, k: &'static str, n: u64) {
        *self.hist.entry(k).or_insert(0) += n;
    }
    pub fn hit_dyn(&mut self, k: String) {
        *self.hist_dyn.entry(k).or_insert(0) += 1;
    }
    /// Count this case as non-trivial; distinctness by fingerprint.
    #[inline]
    pub fn nontrivial(&mut self, fp: u64) {
        if self.bitmap.insert(fp) {
            self.nontrivial += 1;
        }
    }
    /// The address residue (modulo 8) at which this case hands its input strings to the subject when the space is
    /// not crossed with all residues: a function of the case index only (`engine::place`), so a replay uses the same.
    pub fn residue(&self) -> usize {
        crate::engine::place::split(self.cur_idx, false).1
    }

    pub fn sample(&mut self, desc: impl FnOnce() -> String) {
        if self.sample_wanted || self.replay {
            let mut d = desc();
            if self.replay {
                println!("case: {}", d);
            }
            if self.sample_wanted {
                if d.len() > 1200 {
                    // samples are for a reader: a multi-kilobyte case is cut (on a character boundary)
                    let mut cut = 1200;
                    while !d.is_char_boundary(cut) {
                        cut -= 1;
                    }
                    let total = d.len();
                    d.truncate(cut);
                    d.push_str(&format!("... ({} characters in all)", total));
                }
                self.samples.push((self.cur_idx, d));
                self.sample_wanted = false;
            }
        }
    }
    /// Record a violation of the property under check. `key` is the stable classification
    /// (call site + input class); only the lowest-index witness per key is kept.
    pub fn violation(&mut self, key: impl Into<String>, case: impl FnOnce() -> String, detail: impl FnOnce() -> String) {
        let key = key.into();
        if let Some(v) = self.violations.get_mut(&key) {
            v.count += 1;
            if v.idx <= self.cur_idx {
                return;
            }
        }
        let prev = self.violations.get(&key).map(|v| v.count).unwrap_or(1);
        let v = Violation {
            key: key.clone(),
            space: self.cur_space.clone(),
            idx: self.cur_idx,
            case: case(),
            detail: detail(),
            count: prev,
        };
        if self.replay {
            println!("violation key={}\n  case: {}\n  detail: {}", v.key, v.case, v.detail);
        }
        self.violations.insert(key, v);
    }
    pub fn subject_panic(&mut self, site: &str, pi: &PanicInfo, case: impl FnOnce() -> String) {
        if pi.in_harness() {
            machinery_failure(&format!("harness panic at {}: {}", pi.loc, pi.msg));
        }
        let key = format!("panic:{}:{}", site, pi.class());
        let d = format!("panicked at {}: {}", pi.loc, pi.msg);
        self.violation(key, case, || d);
    }
    pub fn merge_from(&mut self, o: Local) {
        self.evals += o.evals;
        self.states += o.states;
        self.transitions += o.transitions;
        self.validated += o.validated;
        self.nontrivial += o.nontrivial;
        for (k, v) in o.hist {
            *self.hist.entry(k).or_insert(0) += v;
        }
        for (k, v) in o.hist_dyn {
            *self.hist_dyn.entry(k).or_insert(0) += v;
        }
        for (k, v) in o.violations {
            match self.violations.get_mut(&k) {
                Some(e) => {
                    let total = e.count + v.count;
                    if (v.space == e.space && v.idx < e.idx) || false {
                        *e = v;
                    }
                    e.count = total;
                }
                None => {
                    self.violations.insert(k, v);
                }
            }
        }
        self.samples.extend(o.samples);
    }
}

pub fn machinery_failure(msg: &str) -> ! {
    eprintln!("MACHINERY-FAILURE: {}", msg);
    std::process::exit(2);
}

pub struct SpaceReport {
    pub name: String,
    pub len: u64,
    pub done: u64,
    pub wall_s: f64,
}

pub struct Ctx {
    pub prop: &'static str,
    pub tier: Tier,
    pub seed: u64,
    pub threads: usize,
    pub replay: Option<(String, u64)>,
    pub total: Local,
    pub spaces: Vec<SpaceReport>,
    pub bounds: Vec<(String, String)>,
    pub assumptions: Vec<String>,
    pub rule: String,
    pub capped: Option<String>,
    pub started: Instant,
    pub deadline: Instant,
    pub bitmap: Arc<Bitmap>,
    pub vacuity: Vec<String>,
    /// classification keys listed as known findings for this property (never stop a run early)
    pub known_keys: Vec<String>,
    pub stopped_early: Option<String>,
    verif_dir: String,
}

pub const CASE_TIMEOUT_MS: u64 = 20_000;
/// occurrences of not-known violation classes on one worker after which a space is abandoned
pub const EARLY_STOP_OCCURRENCES: u64 = 2_000;

impl Ctx {
    pub fn new(prop: &'static str, tier: Tier, seed: u64, replay: Option<(String, u64)>, verif_dir: &str) -> Ctx {
        let threads = std::env::var("VERIF_THREADS")
            .ok()
            .and_then(|s| s.parse().ok())
            .unwrap_or_else(|| std::thread::available_parallelism().map(|n| n.get()).unwrap_or(4))
            .clamp(1, guard::MAX_WORKERS);
        let bits = if replay.is_some() { 16 } else { tier.pick(28, 31) };
        let bitmap = Arc::new(Bitmap::new(bits));
        let cap_s: u64 = std::env::var("VERIF_WALL_CAP_S")
            .ok()
            .and_then(|s| s.parse().ok())
            .unwrap_or(tier.pick(240, 3000));
        let now = Instant::now();
        Ctx {
            prop,
            tier,
            seed,
            threads,
            replay: replay.clone(),
            total: Local::new(bitmap.clone(), seed, tier, replay.is_some()),
            spaces: Vec::new(),
            bounds: Vec::new(),
            assumptions: Vec::new(),
            rule: String::new(),
            capped: None,
            started: now,
            deadline: now + Duration::from_secs(cap_s),
            bitmap,
            vacuity: Vec::new(),
            known_keys: Vec::new(),
            stopped_early: None,
            verif_dir: verif_dir.to_string(),
        }
    }

    pub fn bound(&mut self, k: &str, v: impl Into<String>) {
        self.bounds.push((k.to_string(), v.into()));
    }
    pub fn assume(&mut self, s: impl Into<String>) {
        self.assumptions.push(s.into());
    }
    pub fn hist(&self, k: &str) -> u64 {
        self.total.hist.get(k).copied().unwrap_or(0)
    }
    /// Anti-vacuity: the named histogram bucket must be non-zero at the end of the run.
    pub fn require_hit(&mut self, k: &'static str) {
        if self.replay.is_none() && self.capped.is_none() && self.hist(k) == 0 {
            self.vacuity.push(format!("histogram bucket '{}' is empty", k));
        }
    }

    /// Enumerate `0..len`, calling `f(idx, local)` on every index (in parallel, each case contained).
    pub fn run_space<F>(&mut self, name: &str, len: u64, f: F)
    where
        F: Fn(u64, &mut Local) + Sync,
    {
        let sid = guard::register_space(name);
        if let Some((rs, ridx)) = &self.replay {
            if rs != name {
                return;
            }
            if *ridx >= len {
                machinery_failure(&format!("replay index {} out of range for space {} (len {})", ridx, name, len));
            }
            let mut l = Local::new(self.bitmap.clone(), self.seed, self.tier, true);
            l.cur_space = name.to_string();
            l.cur_idx = *ridx;
            guard::set_worker(0);
            guard::crumb_begin(sid, *ridx);
            let r = guard::catch(|| f(*ridx, &mut l));
            guard::crumb_end();
            guard::set_worker(guard::NOT_A_WORKER);
            if let Err(pi) = r {
                l.subject_panic("uncaught", &pi, || format!("{}[{}]", name, ridx));
            }
            self.total.merge_from(l);
            self.spaces.push(SpaceReport { name: name.to_string(), len, done: 1, wall_s: 0.0 });
            return;
        }
        if len == 0 {
            return;
        }
        if Instant::now() >= self.deadline {
            if self.capped.is_none() {
                self.capped = Some(format!("wall-clock cap reached before space {}", name));
            }
            self.spaces.push(SpaceReport { name: name.to_string(), len, done: 0, wall_s: 0.0 });
            return;
        }
        let t0 = Instant::now();
        let next = AtomicU64::new(0);
        let done = AtomicU64::new(0);
        let stop = AtomicBool::new(false);
        let early = AtomicBool::new(false);
        let known_keys = &self.known_keys;
        let threads = self.threads.min(len as usize).max(1);
        let chunk = (len / (threads as u64 * 16)).clamp(1, 8192);
        let sample_at = [0u64, len / 2, len - 1];
        let deadline = self.deadline;
        let (seed, tier) = (self.seed, self.tier);
        let bitmap = self.bitmap.clone();
        let f = &f;
        let locals: Vec<Local> = std::thread::scope(|s| {
            let mut hs = Vec::new();
            for t in 0..threads {
                let next = &next;
                let done = &done;
                let stop = &stop;
                let early = &early;
                let bitmap = bitmap.clone();
                hs.push(s.spawn(move || {
                    guard::set_worker(t);
                    let mut l = Local::new(bitmap, seed, tier, false);
                    l.cur_space = name.to_string();
                    loop {
                        if stop.load(Relaxed) {
                            break;
                        }
                        let start = next.fetch_add(chunk, Relaxed);
                        if start >= len {
                            break;
                        }
                        if Instant::now() >= deadline {
                            stop.store(true, Relaxed);
                            break;
                        }
                        let end = (start + chunk).min(len);
                        for idx in start..end {
                            l.cur_idx = idx;
                            l.sample_wanted = sample_at.contains(&idx);
                            let before: Vec<String> = if l.violations.is_empty() { Vec::new() } else { l.violations.keys().cloned().collect() };
                            let nviol = l.violations.len();
                            guard::crumb_begin(sid, idx);
                            let r = guard::catch(|| f(idx, &mut l));
                            guard::crumb_end();
                            if let Err(pi) = r {
                                l.subject_panic("uncaught", &pi, || format!("{}[{}]", name, idx));
                            }
                            if l.violations.len() > nviol {
                                // A new class of violation: re-execute the case and demand the same verdict
                                // (same classification key). The one uncontrolled choice in the subject is
                                // FirBuilder's per-instance HashMap order, so a verdict that depends on it may
                                // need more than one re-execution to show again; never showing again in 8
                                // attempts means the harness does not own its nondeterminism.
                                let newkeys: Vec<String> = l.violations.keys().filter(|k| !before.contains(k)).cloned().collect();
                                let mut missing = newkeys.clone();
                                for _attempt in 0..8 {
                                    let mut l2 = Local::new(l.bitmap.clone(), seed, tier, false);
                                    l2.cur_space = name.to_string();
                                    l2.cur_idx = idx;
                                    guard::crumb_begin(sid, idx);
                                    let r2 = guard::catch(|| f(idx, &mut l2));
                                    guard::crumb_end();
                                    if let Err(pi) = r2 {
                                        l2.subject_panic("uncaught", &pi, || format!("{}[{}]", name, idx));
                                    }
                                    missing.retain(|k| !l2.violations.contains_key(k));
                                    if missing.is_empty() {
                                        break;
                                    }
                                }
                                if !missing.is_empty() {
                                    // The harness owns every choice it makes (no clock, no RNG, the case is a function
                                    // of its index, FIR order is canonicalised), and the subject has no threads, I/O or
                                    // time: a verdict that does not come back on re-execution of the same case means the
                                    // subject carried something over from an earlier call or instance (a `static`, a
                                    // `thread_local!`, a cache keyed by address). What was observed was observed on the
                                    // real code, so it stands as a violation - marked, because its replay file need not
                                    // reproduce it in a fresh process. VERIF_STRICT_REPLAY=1 restores the hard error.
                                    if std::env::var("VERIF_STRICT_REPLAY").map(|v| v == "1").unwrap_or(false) {
                                        machinery_failure(&format!("non-deterministic verdict for {}[{}]: {:?} was reported once and not again in 8 re-executions", name, idx, missing));
                                    }
                                    for k in &missing {
                                        if let Some(v) = l.violations.get_mut(k) {
                                            if !v.detail.contains("[not reproduced") {
                                                v.detail.push_str(" [not reproduced in 8 re-executions of the same case in this process: the verdict depends on what ran before, i.e. the subject keeps state outside the value under observation]");
                                            }
                                        }
                                    }
                                }
                            }
                        }
                        done.fetch_add(end - start, Relaxed);
                        // Once a violation class that is not a listed known finding has been seen
                        // often enough, finishing the space adds nothing: stop and report.
                        if !l.violations.is_empty() {
                            let n: u64 = l.violations.iter().filter(|(k, _)| !known_keys.contains(k)).map(|(_, v)| v.count).sum();
                            if n >= EARLY_STOP_OCCURRENCES {
                                early.store(true, Relaxed);
                                stop.store(true, Relaxed);
                            }
                        }
                    }
                    guard::set_worker(guard::NOT_A_WORKER);
                    l
                }));
            }
            hs.into_iter().map(|h| h.join().unwrap_or_else(|_| machinery_failure("worker thread died"))).collect()
        });
        for l in locals {
            self.total.merge_from(l);
        }
        let d = done.load(Relaxed);
        if early.load(Relaxed) {
            if self.stopped_early.is_none() {
                self.stopped_early = Some(format!("space {} abandoned after {} of {} cases: a violation class had already occurred {}+ times on one worker", name, d, len, EARLY_STOP_OCCURRENCES));
            }
            // later spaces are skipped as well: the verdict is already a violation
            self.deadline = Instant::now();
            if self.capped.is_none() {
                self.capped = self.stopped_early.clone();
            }
        } else if d < len && self.capped.is_none() {
            self.capped = Some(format!("wall-clock cap reached inside space {} after {} of {} cases", name, d, len));
        }
        self.spaces.push(SpaceReport { name: name.to_string(), len, done: d, wall_s: t0.elapsed().as_secs_f64() });
    }

    /// Write evidence, print the verdict lines, return the process exit code.
    pub fn finish(mut self, known: &Known) -> i32 {
        let wall = self.started.elapsed().as_secs_f64();
        let out_dir = format!("{}/out/replays", self.verif_dir);
        let _ = std::fs::create_dir_all(&out_dir);

        // classify violations
        let mut new_v: Vec<(Violation, String)> = Vec::new();
        let mut known_v: Vec<(Violation, String)> = Vec::new();
        for v in self.total.violations.values() {
            match known.matches(self.prop, &v.key) {
                Some(text) => known_v.push((v.clone(), text)),
                None => {
                    let path = format!("{}/{}-{}-{:016x}.json", out_dir, self.prop, self.tier.name(), fp_bytes(v.key.as_bytes()));
                    new_v.push((v.clone(), path));
                }
            }
        }

        if self.replay.is_some() {
            if self.spaces.is_empty() {
                machinery_failure("replay: the named space does not exist in this property/tier");
            }
            if new_v.is_empty() && known_v.is_empty() {
                println!("replay: the case does not violate {} on this tree", self.prop);
                return 0;
            }
            for (v, text) in &known_v {
                println!("KNOWN-FINDING: property={} key={} {}", self.prop, v.key, text);
            }
            for (v, _) in &new_v {
                println!("VIOLATION property={} replay=<this file> key={}", self.prop, v.key);
            }
            return if new_v.is_empty() { 0 } else { 1 };
        }

        for (v, path) in &new_v {
            let j = J::obj()
                .set("property_id", J::s(self.prop))
                .set("tier", J::s(self.tier.name()))
                .set("seed", J::u(self.seed))
                .set("space", J::s(v.space.clone()))
                .set("index", J::u(v.idx))
                .set("key", J::s(v.key.clone()))
                .set("case", J::s(v.case.clone()))
                .set("detail", J::s(v.detail.clone()))
                .set("occurrences", J::u(v.count));
            if let Err(e) = std::fs::write(path, j.render()) {
                machinery_failure(&format!("cannot write replay file {}: {}", path, e));
            }
        }

        // evidence
        let mut samples: Vec<J> = Vec::new();
        self.total.samples.sort();
        for (idx, d) in self.total.samples.iter().take(48) {
            samples.push(J::obj().set("index", J::u(*idx)).set("case", J::s(d.clone())));
        }
        if samples.is_empty() {
            samples.push(J::s("no case was sampled (empty run)"));
        }
        let mut outcomes = BTreeMap::new();
        for (k, v) in &self.total.hist {
            outcomes.insert(k.to_string(), *v);
        }
        for (k, v) in &self.total.hist_dyn {
            outcomes.insert(k.clone(), *v);
        }
        let exhaustive = self.capped.is_none() && self.spaces.iter().all(|s| s.done == s.len);
        let spaces = J::Arr(
            self.spaces
                .iter()
                .map(|s| {
                    J::obj()
                        .set("space", J::s(s.name.clone()))
                        .set("size", J::u(s.len))
                        .set("explored", J::u(s.done))
                        .set("wall_s", J::Num(s.wall_s))
                })
                .collect(),
        );
        let mut cov = J::obj()
            .set("states", J::u(self.total.states.max(0)))
            .set("transitions", J::u(self.total.transitions))
            .set("traces_validated_against_impl", J::u(self.total.validated))
            .set("evaluations", J::u(self.total.evals))
            .set("distinct_nontrivial", J::u(self.total.nontrivial))
            .set("rule", J::s(self.rule.clone()))
            .set("exhaustive", J::Bool(exhaustive))
            .set("bounds", J::Obj(self.bounds.iter().map(|(k, v)| (k.clone(), J::s(v.clone()))).collect()))
            .set("spaces", spaces)
            .set("outcomes", J::from_map(&outcomes))
            .set("samples", J::Arr(samples))
            .set("threads", J::u(self.threads as u64))
            .set("peak_alloc_bytes", J::u(guard::peak_alloc() as u64));
        if let Some(c) = &self.capped {
            cov.put("cap_reached", J::s(c.clone()));
        }
        cov.put("expected_outcome_classes_missing", J::Arr(self.vacuity.iter().map(|m| J::s(m.clone())).collect()));
        cov.put(
            "known_findings_seen",
            J::Arr(known_v.iter().map(|(v, _)| J::obj().set("key", J::s(v.key.clone())).set("occurrences", J::u(v.count)).set("witness", J::s(v.case.clone()))).collect()),
        );
        cov.put(
            "violations_found",
            J::Arr(new_v.iter().map(|(v, p)| J::obj().set("key", J::s(v.key.clone())).set("occurrences", J::u(v.count)).set("replay", J::s(p.clone()))).collect()),
        );
        let ev = J::obj()
            .set("property_id", J::s(self.prop))
            .set("tier", J::s(self.tier.name()))
            .set("seed", J::u(self.seed))
            .set("level", J::s("model_checking"))
            .set("coverage", cov)
            .set("assumptions", J::Arr(self.assumptions.iter().map(|a| J::s(a.clone())).collect()))
            .set("wall_s", J::Num(wall))
            .set("violations", J::u(new_v.len() as u64));
        let evdir = format!("{}/evidence", self.verif_dir);
        let _ = std::fs::create_dir_all(&evdir);
        let evpath = format!("{}/{}.json", evdir, self.prop);
        if let Err(e) = std::fs::write(&evpath, ev.render()) {
            machinery_failure(&format!("cannot write evidence {}: {}", evpath, e));
        }

        println!(
            "{} {}: spaces={} states={} transitions={} validated={} evaluations={} distinct_nontrivial={} exhaustive={} wall={:.1}s",
            self.prop,
            self.tier.name(),
            self.spaces.len(),
            self.total.states,
            self.total.transitions,
            self.total.validated,
            self.total.evals,
            self.total.nontrivial,
            exhaustive,
            wall
        );
        for s in &self.spaces {
            println!("  space {:<34} size={:<12} explored={:<12} {:.2}s", s.name, s.len, s.done, s.wall_s);
        }
        if let Some(c) = &self.capped {
            println!("  CAP: {}", c);
        }
        for (v, text) in &known_v {
            println!("KNOWN-FINDING: property={} key={} {} (witness: {}; {} occurrences)", self.prop, v.key, text, v.case, v.count);
        }
        if !self.vacuity.is_empty() && new_v.is_empty() {
            // An outcome class this check expects to see (e.g. "some SR packet was accepted") did not occur. On the
            // unchanged tree that would mean a broken generator, and VERIF_STRICT_VACUITY=1 (set by setup.sh's
            // self-test run) makes it a machinery failure. On a modified tree it can be the modification's doing
            // without this property being violated (a parser that now refuses everything still satisfies a
            // one-directional "accepted only if ..." property): the property held on everything explored, so the
            // verdict stays 0 and the thin coverage is reported here and in the evidence file.
            for m in &self.vacuity {
                println!("THIN-COVERAGE: an expected outcome class did not occur: {}", m);
            }
            if std::env::var("VERIF_STRICT_VACUITY").map(|v| v == "1").unwrap_or(false) {
                eprintln!("MACHINERY-FAILURE: vacuous exploration (VERIF_STRICT_VACUITY=1)");
                return 2;
            }
        }
        if self.total.states == 0 || self.total.transitions == 0 {
            eprintln!("MACHINERY-FAILURE: nothing was explored");
            return 2;
        }
        for (v, path) in &new_v {
            println!("VIOLATION property={} replay={}", self.prop, path);
            println!("  key={} occurrences={} first witness: {}[{}] {}", v.key, v.count, v.space, v.idx, v.case);
            println!("  {}", v.detail);
        }
        if new_v.is_empty() {
            0
        } else {
            1
        }
    }
}
