//! Containment of the subject: silent panic hook that records message + location, catch_unwind
//! wrapper, per-worker breadcrumbs, a watchdog thread that turns a hanging case into a verdict,
//! and a counting allocator that turns runaway allocation into a verdict.

use std::alloc::{GlobalAlloc, Layout, System};
use std::cell::{Cell, RefCell};
use std::panic::{self, AssertUnwindSafe};
use std::sync::atomic::{AtomicU64, AtomicUsize, Ordering::*};
use std::sync::{Mutex, OnceLock};
use std::time::Instant;

pub const MAX_WORKERS: usize = 64;
pub const NOT_A_WORKER: usize = usize::MAX;

thread_local! {
    static WORKER: Cell<usize> = const { Cell::new(NOT_A_WORKER) };
    static LAST_PANIC: RefCell<Option<PanicInfo>> = const { RefCell::new(None) };
}

#[derive(Clone, Debug, PartialEq, Eq)]
pub struct PanicInfo {
    pub msg: String,
    pub loc: String,
}

impl PanicInfo {
    /// true if the panic was raised from harness code (a machinery failure, never a verdict)
    pub fn in_harness(&self) -> bool {
        self.loc.contains("mc/src/") || self.loc.is_empty()
    }
    /// message with digits collapsed, stable across inputs; used as classification key
    pub fn class(&self) -> String {
        let mut out = String::new();
        let mut last_digit = false;
        for c in self.msg.chars() {
            if c.is_ascii_digit() {
                if !last_digit {
                    out.push('#');
                }
                last_digit = true;
            } else {
                last_digit = false;
                out.push(c);
            }
        }
        let file = self.loc.rsplit('/').next().unwrap_or("").split(':').next().unwrap_or("");
        let mut k = format!("{}:{}", file, out);
        k.truncate(120);
        k
    }
}

// -------- breadcrumbs --------

#[allow(clippy::declare_interior_mutable_const)]
const Z64: AtomicU64 = AtomicU64::new(0);
#[allow(clippy::declare_interior_mutable_const)]
const ZUS: AtomicUsize = AtomicUsize::new(0);
static CRUMB_IDX: [AtomicU64; MAX_WORKERS] = [Z64; MAX_WORKERS];
static CRUMB_START_MS: [AtomicU64; MAX_WORKERS] = [Z64; MAX_WORKERS];
static CRUMB_SPACE: [AtomicUsize; MAX_WORKERS] = [ZUS; MAX_WORKERS];
static SPACE_NAMES: Mutex<Vec<String>> = Mutex::new(Vec::new());
static T0: OnceLock<Instant> = OnceLock::new();

pub fn now_ms() -> u64 {
    T0.get_or_init(Instant::now).elapsed().as_millis() as u64 + 1
}

pub fn register_space(name: &str) -> usize {
    let mut g = SPACE_NAMES.lock().unwrap();
    if let Some(i) = g.iter().position(|n| n == name) {
        return i;
    }
    g.push(name.to_string());
    g.len() - 1
}

pub fn space_name(id: usize) -> String {
    SPACE_NAMES.lock().unwrap().get(id).cloned().unwrap_or_default()
}

pub fn set_worker(id: usize) {
    WORKER.with(|w| w.set(id));
    if id < MAX_WORKERS {
        WORKER_PTHREAD[id].store(current_pthread(), Release);
    }
}

/// pthread handles of the workers (0 = unknown), so that the watchdog can read a worker's CPU clock
static WORKER_PTHREAD: [AtomicUsize; MAX_WORKERS] = [const { AtomicUsize::new(0) }; MAX_WORKERS];

#[cfg(target_os = "linux")]
mod cpuclock {
    #[repr(C)]
    pub struct Timespec {
        pub sec: i64,
        pub nsec: i64,
    }
    extern "C" {
        pub fn pthread_self() -> usize;
        pub fn pthread_getcpuclockid(thread: usize, clock: *mut i32) -> i32;
        pub fn clock_gettime(clock: i32, ts: *mut Timespec) -> i32;
    }
}

#[cfg(target_os = "linux")]
fn current_pthread() -> usize {
    unsafe { cpuclock::pthread_self() }
}
#[cfg(not(target_os = "linux"))]
fn current_pthread() -> usize {
    0
}

/// CPU time consumed so far by worker `w`'s thread, in ms (None if it cannot be read)
#[cfg(target_os = "linux")]
pub fn worker_cpu_ms(w: usize) -> Option<u64> {
    if w >= MAX_WORKERS {
        return None;
    }
    let t = WORKER_PTHREAD[w].load(Acquire);
    if t == 0 {
        return None;
    }
    let mut clock = 0i32;
    let mut ts = cpuclock::Timespec { sec: 0, nsec: 0 };
    unsafe {
        if cpuclock::pthread_getcpuclockid(t, &mut clock) != 0 || cpuclock::clock_gettime(clock, &mut ts) != 0 {
            return None;
        }
    }
    Some(ts.sec as u64 * 1000 + ts.nsec as u64 / 1_000_000)
}
#[cfg(not(target_os = "linux"))]
pub fn worker_cpu_ms(_w: usize) -> Option<u64> {
    None
}

/// start stamp of worker `w`'s running case (0 = between cases)
pub fn crumb_start_of(w: usize) -> u64 {
    CRUMB_START_MS[w].load(Acquire)
}

pub fn worker() -> usize {
    WORKER.try_with(|w| w.get()).unwrap_or(NOT_A_WORKER)
}

thread_local! {
    static OUT_SEQ: std::cell::Cell<u64> = std::cell::Cell::new(0);
}

/// The address residue (modulo 8) of the next output buffer of the running case: the case's rotating residue
/// (`place::split`) advanced by three for every output buffer the case has made so far.
pub fn out_residue() -> usize {
    let w = worker();
    let idx = if w < MAX_WORKERS { CRUMB_IDX[w].load(Relaxed) } else { 0 };
    let k = OUT_SEQ.with(|c| {
        let k = c.get();
        c.set(k + 1);
        k
    });
    ((crate::engine::place::split(idx, false).1 as u64 + 3 * k) % 8) as usize
}

#[inline]
pub fn crumb_begin(space: usize, idx: u64) {
    OUT_SEQ.with(|c| c.set(0));
    let w = worker();
    if w < MAX_WORKERS {
        CRUMB_SPACE[w].store(space, Relaxed);
        CRUMB_IDX[w].store(idx, Relaxed);
        CRUMB_START_MS[w].store(now_ms(), Release);
    }
}

#[inline]
pub fn crumb_end() {
    let w = worker();
    if w < MAX_WORKERS {
        CRUMB_START_MS[w].store(0, Release);
    }
}

/// (worker, space id, idx, running for ms) of the longest-running case, if any exceeds `limit_ms`
pub fn stuck_case(limit_ms: u64) -> Option<(usize, usize, u64, u64)> {
    let now = now_ms();
    for w in 0..MAX_WORKERS {
        let s = CRUMB_START_MS[w].load(Acquire);
        if s != 0 && now > s && now - s > limit_ms {
            return Some((w, CRUMB_SPACE[w].load(Relaxed), CRUMB_IDX[w].load(Relaxed), now - s));
        }
    }
    None
}

pub fn crumb_of(w: usize) -> (usize, u64) {
    (CRUMB_SPACE[w].load(Relaxed), CRUMB_IDX[w].load(Relaxed))
}

// -------- panic capture --------

pub fn install_panic_hook() {
    let default = panic::take_hook();
    panic::set_hook(Box::new(move |info| {
        let msg = if let Some(s) = info.payload().downcast_ref::<&str>() {
            s.to_string()
        } else if let Some(s) = info.payload().downcast_ref::<String>() {
            s.clone()
        } else {
            "<non-string panic payload>".to_string()
        };
        let loc = info
            .location()
            .map(|l| format!("{}:{}:{}", l.file(), l.line(), l.column()))
            .unwrap_or_default();
        let pi = PanicInfo { msg, loc };
        let stored = LAST_PANIC.try_with(|p| *p.borrow_mut() = Some(pi.clone())).is_ok();
        if worker() == NOT_A_WORKER && !CATCHING.with(|c| c.get() > 0) || !stored {
            default(info);
        }
    }));
}

thread_local! {
    static CATCHING: Cell<u32> = const { Cell::new(0) };
}

/// Run `f`, converting an unwind into `Err(PanicInfo)`.
pub fn catch<T>(f: impl FnOnce() -> T) -> Result<T, PanicInfo> {
    CATCHING.with(|c| c.set(c.get() + 1));
    let r = panic::catch_unwind(AssertUnwindSafe(f));
    CATCHING.with(|c| c.set(c.get() - 1));
    match r {
        Ok(v) => Ok(v),
        Err(_) => {
            let pi = LAST_PANIC.with(|p| p.borrow_mut().take()).unwrap_or(PanicInfo {
                msg: "<panic without hook record>".into(),
                loc: String::new(),
            });
            Err(pi)
        }
    }
}

// -------- allocation cap --------

pub struct CapAlloc;

static LIVE: AtomicUsize = AtomicUsize::new(0);
static PEAK: AtomicUsize = AtomicUsize::new(0);
static CAP: AtomicUsize = AtomicUsize::new(usize::MAX);
/// worker id + 1 of the thread that blew the cap (0 = none)
pub static BLOWN: AtomicUsize = AtomicUsize::new(0);

pub fn set_alloc_cap(bytes: usize) {
    CAP.store(bytes, Relaxed);
}
pub fn peak_alloc() -> usize {
    PEAK.load(Relaxed)
}
pub fn live_alloc() -> usize {
    LIVE.load(Relaxed)
}

thread_local! {
    /// bytes allocated minus freed by this thread since its last flush to the global counter
    static DELTA: Cell<isize> = const { Cell::new(0) };
}
const FLUSH: isize = 4 << 20;

#[inline]
fn flush(d: isize) {
    let n = if d >= 0 { LIVE.fetch_add(d as usize, Relaxed).wrapping_add(d as usize) } else { LIVE.fetch_sub((-d) as usize, Relaxed).wrapping_sub((-d) as usize) };
    if (n as isize) > 0 && n > PEAK.load(Relaxed) {
        PEAK.store(n, Relaxed);
    }
    if (n as isize) > 0 && n > CAP.load(Relaxed) {
        let w = worker();
        if w < MAX_WORKERS {
            // Park this worker for good; the watchdog reports the case from the breadcrumb.
            BLOWN.store(w + 1, SeqCst);
            loop {
                std::thread::sleep(std::time::Duration::from_millis(200));
            }
        }
    }
}

/// Per-thread batching keeps the shared counter off the hot path (a contended atomic per
/// allocation cost more than the subject's work); the cap is therefore enforced with a slack of
/// FLUSH bytes per thread.
#[inline]
fn account(size: usize) {
    let _ = DELTA.try_with(|c| {
        let d = c.get() + size as isize;
        if d >= FLUSH {
            c.set(0);
            flush(d);
        } else {
            c.set(d);
        }
    });
}

#[inline]
fn release(size: usize) {
    let _ = DELTA.try_with(|c| {
        let d = c.get() - size as isize;
        if d <= -FLUSH {
            c.set(0);
            flush(d);
        } else {
            c.set(d);
        }
    });
}

unsafe impl GlobalAlloc for CapAlloc {
    unsafe fn alloc(&self, l: Layout) -> *mut u8 {
        account(l.size());
        System.alloc(l)
    }
    unsafe fn dealloc(&self, p: *mut u8, l: Layout) {
        release(l.size());
        System.dealloc(p, l)
    }
    unsafe fn alloc_zeroed(&self, l: Layout) -> *mut u8 {
        account(l.size());
        System.alloc_zeroed(l)
    }
    unsafe fn realloc(&self, p: *mut u8, l: Layout, new: usize) -> *mut u8 {
        if new > l.size() {
            account(new - l.size());
        } else {
            release(l.size() - new);
        }
        System.realloc(p, l, new)
    }
}

// -------- fatal-signal containment --------
//
// A stack overflow (runaway recursion in the subject), a failed allocation or a panic inside a
// panic ends in abort(); none of them can be caught by catch_unwind. The SIGABRT handler parks
// the thread for good and leaves the report (case from the breadcrumb, replay file, VIOLATION
// line, exit 1) to the watchdog, exactly as for a blown allocation cap.

/// ((signal number) << 32) | (worker id + 1) of the thread that received a fatal signal (0 = none)
pub static CRASHED: AtomicU64 = AtomicU64::new(0);

#[repr(C)]
struct KSigaction {
    handler: usize,
    mask: [u64; 16],
    flags: i32,
    restorer: usize,
}

extern "C" {
    fn sigaction(sig: i32, act: *const KSigaction, old: *mut KSigaction) -> i32;
    fn pause() -> i32;
}

extern "C" fn on_fatal(sig: i32) {
    let w = worker();
    let w1 = if w < MAX_WORKERS { w as u64 + 1 } else { MAX_WORKERS as u64 + 1 };
    let _ = CRASHED.compare_exchange(0, ((sig as u64) << 32) | w1, SeqCst, SeqCst);
    loop {
        unsafe {
            pause();
        }
    }
}

/// SIGABRT (failed allocation, panic inside a panic), SIGSEGV and SIGBUS (a guard-page hit: the subject has no
/// unsafe code, so a fault is a stack overflow). std's own SIGSEGV handler is replaced: it serialises on a lock
/// and gives up ("deadlock in SIGSEGV handler", then the default action) when several workers overflow at once.
/// The per-thread alternate signal stacks that std sets up stay in place and SA_ONSTACK puts this handler on them.
/// The first fault wins the report; every faulting thread is parked.
#[cfg(all(target_os = "linux", target_arch = "x86_64"))]
pub fn install_fatal_signal_handler() {
    const SIGABRT: i32 = 6;
    const SIGBUS: i32 = 7;
    const SIGSEGV: i32 = 11;
    const SA_ONSTACK: i32 = 0x0800_0000;
    let act = KSigaction { handler: on_fatal as extern "C" fn(i32) as usize, mask: [0; 16], flags: SA_ONSTACK, restorer: 0 };
    unsafe {
        sigaction(SIGABRT, &act, std::ptr::null_mut());
        sigaction(SIGSEGV, &act, std::ptr::null_mut());
        sigaction(SIGBUS, &act, std::ptr::null_mut());
    }
}
#[cfg(not(all(target_os = "linux", target_arch = "x86_64")))]
pub fn install_fatal_signal_handler() {}
