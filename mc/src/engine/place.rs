//! Address placement of input strings. The subject's parsers are zero-copy views over the caller's buffer, so the
//! *address* of the first byte is part of the input as far as the machine is concerned: code that rounds a pointer
//! (rather than an offset) up to a word boundary behaves differently on `&buf[1..]` than on `buf`. Every heap buffer
//! starts on a 16-byte boundary, so unless the harness moves the string nothing but residue 0 is ever explored.
//! `place` hands a string over at a chosen address residue modulo 8; spaces small enough are crossed with all eight
//! residues, larger ones rotate the residue with the case index (stated as such in the evidence).

pub const RESIDUES: u64 = 8;

/// (case index, residue) of a placed space: crossed spaces have `len * 8` indices, rotated ones `len`.
pub fn split(idx: u64, cross: bool) -> (u64, usize) {
    if cross {
        (idx / RESIDUES, (idx % RESIDUES) as usize)
    } else {
        // a residue that does not follow any single coordinate of a mixed-radix index
        let h = idx ^ (idx >> 3) ^ (idx >> 7) ^ (idx >> 13) ^ (idx >> 21);
        (idx, (h % RESIDUES) as usize)
    }
}

/// Moves the content of `buf` so that the returned slice (the same bytes) starts at an address congruent to
/// `residue` modulo 8.
pub fn place(buf: &mut Vec<u8>, residue: usize) -> &[u8] {
    let n = buf.len();
    buf.reserve(16);
    let base = buf.as_ptr() as usize;
    let off = (residue + 8 - base % 8) % 8;
    buf.resize(n + off, 0xEE);
    buf.copy_within(0..n, off);
    for b in &mut buf[..off] {
        *b = 0xEE;
    }
    let s = &buf[off..off + n];
    if n > 0 && (s.as_ptr() as usize) % 8 != residue % 8 {
        crate::engine::run::machinery_failure("place: the buffer did not land on the requested address residue");
    }
    s
}

/// A copy of `bytes` in `scratch`, starting at an address congruent to `residue` modulo 8.
pub fn placed_copy<'a>(scratch: &'a mut Vec<u8>, bytes: &[u8], residue: usize) -> &'a [u8] {
    scratch.clear();
    scratch.extend_from_slice(bytes);
    place(scratch, residue)
}

/// `placed!(l, v)`: rebinds the byte vector `v` as a slice of the same bytes at the rotating address residue of the
/// running case (`Local::residue`).
#[macro_export]
macro_rules! placed {
    ($l:expr, $v:ident) => {
        let mut $v = $v;
        let __residue = $l.residue();
        let $v: &[u8] = $crate::engine::place::place(&mut $v, __residue);
    };
    ($l:expr, $v:ident, $shift:expr) => {
        let mut $v = $v;
        let __residue = ($l.residue() + $shift) % 8;
        let $v: &[u8] = $crate::engine::place::place(&mut $v, __residue);
    };
}

/// An output buffer for the subject's writers that starts at a chosen address residue modulo 8: the residue rotates
/// with the case index and with the number of output buffers the running case has already made
/// (`guard::out_residue`), so it is a function of the case alone.
pub struct OutBuf {
    v: Vec<u8>,
    off: usize,
    len: usize,
}

impl OutBuf {
    pub fn new(cap: usize, fill: impl Fn(usize) -> u8) -> OutBuf {
        let residue = crate::engine::guard::out_residue();
        let mut v: Vec<u8> = Vec::with_capacity(cap + 16);
        let base = v.as_ptr() as usize;
        let off = (residue + 8 - base % 8) % 8;
        v.resize(off, 0xEE);
        v.extend((0..cap).map(fill));
        debug_assert_eq!(v.as_ptr() as usize, base);
        OutBuf { v, off, len: cap }
    }
    pub fn into_vec(mut self) -> Vec<u8> {
        self.v.truncate(self.off + self.len);
        self.v.drain(..self.off);
        self.v
    }
}

impl std::ops::Deref for OutBuf {
    type Target = [u8];
    fn deref(&self) -> &[u8] {
        &self.v[self.off..self.off + self.len]
    }
}

impl std::ops::DerefMut for OutBuf {
    fn deref_mut(&mut self) -> &mut [u8] {
        &mut self.v[self.off..self.off + self.len]
    }
}
