//! Minimal JSON value, writer and parser (std only). Used for evidence files and replay files.

use std::collections::BTreeMap;
use std::fmt::Write as _;

#[derive(Clone, Debug, PartialEq)]
pub enum J {
    Null,
    Bool(bool),
    Int(i128),
    Num(f64),
    Str(String),
    Arr(Vec<J>),
    Obj(Vec<(String, J)>),
}

impl J {
    pub fn obj() -> J {
        J::Obj(Vec::new())
    }
    pub fn set(mut self, k: &str, v: J) -> J {
        if let J::Obj(ref mut o) = self {
            if let Some(e) = o.iter_mut().find(|e| e.0 == k) {
                e.1 = v;
            } else {
                o.push((k.to_string(), v));
            }
        }
        self
    }
    pub fn put(&mut self, k: &str, v: J) {
        if let J::Obj(ref mut o) = self {
            if let Some(e) = o.iter_mut().find(|e| e.0 == k) {
                e.1 = v;
            } else {
                o.push((k.to_string(), v));
            }
        }
    }
    pub fn get(&self, k: &str) -> Option<&J> {
        match self {
            J::Obj(o) => o.iter().find(|e| e.0 == k).map(|e| &e.1),
            _ => None,
        }
    }
    pub fn as_str(&self) -> Option<&str> {
        match self {
            J::Str(s) => Some(s),
            _ => None,
        }
    }
    pub fn as_u64(&self) -> Option<u64> {
        match self {
            J::Int(i) if *i >= 0 => Some(*i as u64),
            _ => None,
        }
    }
    pub fn s(v: impl Into<String>) -> J {
        J::Str(v.into())
    }
    pub fn u(v: u64) -> J {
        J::Int(v as i128)
    }
    pub fn from_map(m: &BTreeMap<String, u64>) -> J {
        J::Obj(m.iter().map(|(k, v)| (k.clone(), J::u(*v))).collect())
    }

    pub fn render(&self) -> String {
        let mut s = String::new();
        self.write(&mut s, 0);
        s.push('\n');
        s
    }

    fn write(&self, out: &mut String, ind: usize) {
        match self {
            J::Null => out.push_str("null"),
            J::Bool(b) => out.push_str(if *b { "true" } else { "false" }),
            J::Int(i) => {
                let _ = write!(out, "{}", i);
            }
            J::Num(f) => {
                if f.is_finite() {
                    let _ = write!(out, "{:.3}", f);
                } else {
                    out.push_str("0.0");
                }
            }
            J::Str(s) => write_str(out, s),
            J::Arr(a) => {
                if a.is_empty() {
                    out.push_str("[]");
                    return;
                }
                out.push_str("[\n");
                for (i, v) in a.iter().enumerate() {
                    pad(out, ind + 1);
                    v.write(out, ind + 1);
                    if i + 1 < a.len() {
                        out.push(',');
                    }
                    out.push('\n');
                }
                pad(out, ind);
                out.push(']');
            }
            J::Obj(o) => {
                if o.is_empty() {
                    out.push_str("{}");
                    return;
                }
                out.push_str("{\n");
                for (i, (k, v)) in o.iter().enumerate() {
                    pad(out, ind + 1);
                    write_str(out, k);
                    out.push_str(": ");
                    v.write(out, ind + 1);
                    if i + 1 < o.len() {
                        out.push(',');
                    }
                    out.push('\n');
                }
                pad(out, ind);
                out.push('}');
            }
        }
    }
}

fn pad(out: &mut String, n: usize) {
    for _ in 0..n {
        out.push(' ');
    }
}

fn write_str(out: &mut String, s: &str) {
    out.push('"');
    for c in s.chars() {
        match c {
            '"' => out.push_str("\\\""),
            '\\' => out.push_str("\\\\"),
            '\n' => out.push_str("\\n"),
            '\r' => out.push_str("\\r"),
            '\t' => out.push_str("\\t"),
            c if (c as u32) < 0x20 => {
                let _ = write!(out, "\\u{:04x}", c as u32);
            }
            c => out.push(c),
        }
    }
    out.push('"');
}

pub fn parse(src: &str) -> Result<J, String> {
    let b = src.as_bytes();
    let mut p = 0usize;
    let v = parse_val(b, &mut p)?;
    skip_ws(b, &mut p);
    if p != b.len() {
        return Err(format!("trailing data at {}", p));
    }
    Ok(v)
}

fn skip_ws(b: &[u8], p: &mut usize) {
    while *p < b.len() && matches!(b[*p], b' ' | b'\n' | b'\r' | b'\t') {
        *p += 1;
    }
}

fn parse_val(b: &[u8], p: &mut usize) -> Result<J, String> {
    skip_ws(b, p);
    if *p >= b.len() {
        return Err("unexpected end".into());
    }
    match b[*p] {
        b'{' => {
            *p += 1;
            let mut o = Vec::new();
            skip_ws(b, p);
            if *p < b.len() && b[*p] == b'}' {
                *p += 1;
                return Ok(J::Obj(o));
            }
            loop {
                skip_ws(b, p);
                let k = match parse_val(b, p)? {
                    J::Str(s) => s,
                    _ => return Err("object key must be a string".into()),
                };
                skip_ws(b, p);
                if *p >= b.len() || b[*p] != b':' {
                    return Err(format!("expected ':' at {}", p));
                }
                *p += 1;
                let v = parse_val(b, p)?;
                o.push((k, v));
                skip_ws(b, p);
                if *p >= b.len() {
                    return Err("unexpected end in object".into());
                }
                match b[*p] {
                    b',' => *p += 1,
                    b'}' => {
                        *p += 1;
                        return Ok(J::Obj(o));
                    }
                    _ => return Err(format!("expected ',' or '}}' at {}", p)),
                }
            }
        }
        b'[' => {
            *p += 1;
            let mut a = Vec::new();
            skip_ws(b, p);
            if *p < b.len() && b[*p] == b']' {
                *p += 1;
                return Ok(J::Arr(a));
            }
            loop {
                a.push(parse_val(b, p)?);
                skip_ws(b, p);
                if *p >= b.len() {
                    return Err("unexpected end in array".into());
                }
                match b[*p] {
                    b',' => *p += 1,
                    b']' => {
                        *p += 1;
                        return Ok(J::Arr(a));
                    }
                    _ => return Err(format!("expected ',' or ']' at {}", p)),
                }
            }
        }
        b'"' => {
            *p += 1;
            let mut s = String::new();
            loop {
                if *p >= b.len() {
                    return Err("unterminated string".into());
                }
                match b[*p] {
                    b'"' => {
                        *p += 1;
                        return Ok(J::Str(s));
                    }
                    b'\\' => {
                        *p += 1;
                        if *p >= b.len() {
                            return Err("bad escape".into());
                        }
                        match b[*p] {
                            b'n' => s.push('\n'),
                            b'r' => s.push('\r'),
                            b't' => s.push('\t'),
                            b'"' => s.push('"'),
                            b'\\' => s.push('\\'),
                            b'/' => s.push('/'),
                            b'u' => {
                                if *p + 4 >= b.len() {
                                    return Err("bad \\u".into());
                                }
                                let h = std::str::from_utf8(&b[*p + 1..*p + 5])
                                    .map_err(|e| e.to_string())?;
                                let c = u32::from_str_radix(h, 16).map_err(|e| e.to_string())?;
                                s.push(char::from_u32(c).unwrap_or('?'));
                                *p += 4;
                            }
                            _ => return Err("bad escape".into()),
                        }
                        *p += 1;
                    }
                    _ => {
                        // copy one UTF-8 scalar
                        let start = *p;
                        *p += 1;
                        while *p < b.len() && (b[*p] & 0xC0) == 0x80 {
                            *p += 1;
                        }
                        s.push_str(std::str::from_utf8(&b[start..*p]).map_err(|e| e.to_string())?);
                    }
                }
            }
        }
        b't' if b[*p..].starts_with(b"true") => {
            *p += 4;
            Ok(J::Bool(true))
        }
        b'f' if b[*p..].starts_with(b"false") => {
            *p += 5;
            Ok(J::Bool(false))
        }
        b'n' if b[*p..].starts_with(b"null") => {
            *p += 4;
            Ok(J::Null)
        }
        _ => {
            let start = *p;
            while *p < b.len() && matches!(b[*p], b'-' | b'+' | b'.' | b'e' | b'E' | b'0'..=b'9') {
                *p += 1;
            }
            let t = std::str::from_utf8(&b[start..*p]).map_err(|e| e.to_string())?;
            if t.is_empty() {
                return Err(format!("unexpected byte at {}", start));
            }
            if let Ok(i) = t.parse::<i128>() {
                Ok(J::Int(i))
            } else {
                t.parse::<f64>().map(J::Num).map_err(|e| e.to_string())
            }
        }
    }
}

pub fn hex(b: &[u8]) -> String {
    let mut s = String::with_capacity(b.len() * 2);
    for x in b {
        let _ = write!(s, "{:02x}", x);
    }
    s
}

/// Hex for display: long strings are abbreviated as head..tail with the length.
pub fn hex_short(b: &[u8]) -> String {
    if b.len() <= 96 {
        hex(b)
    } else {
        format!("{}..{} (len {})", hex(&b[..48]), hex(&b[b.len() - 16..]), b.len())
    }
}

pub fn unhex(s: &str) -> Option<Vec<u8>> {
    let s = s.as_bytes();
    if s.len() % 2 != 0 {
        return None;
    }
    let mut v = Vec::with_capacity(s.len() / 2);
    for c in s.chunks(2) {
        let t = std::str::from_utf8(c).ok()?;
        v.push(u8::from_str_radix(t, 16).ok()?);
    }
    Some(v)
}
