pub mod deviate;
pub mod guard;
pub mod json;
pub mod known;
pub mod place;
pub mod run;
pub mod space;

use json::J;
use std::time::Duration;

/// Spawn the watchdog: a case running longer than CASE_TIMEOUT_MS, or a worker that blew the
/// allocation cap, is reported as a violation of `prop` (with a replay file) and the process exits 1.
pub fn spawn_watchdog(prop: &'static str, tier: run::Tier, seed: u64, verif_dir: String, is_replay: bool) {
    // a case that has been "running" for CASE_TIMEOUT_MS of wall-clock time is only a suspect: the machine may have
    // been paused, or the worker starved by other load. It becomes a verdict when the same case goes on to burn
    // CASE_CPU_CONFIRM_MS of CPU time on its own thread (a loop that does not end), or stays put for CASE_WALL_MAX_MS
    // (a thread that blocks for good)
    const CASE_CPU_CONFIRM_MS: u64 = 10_000;
    const CASE_WALL_MAX_MS: u64 = 900_000;
    // (worker, start stamp of the suspected case, the worker's CPU time when it was first suspected)
    let mut suspect: Option<(usize, u64, Option<u64>)> = None;
    std::thread::spawn(move || loop {
        std::thread::sleep(Duration::from_millis(100));
        let blown = guard::BLOWN.load(std::sync::atomic::Ordering::SeqCst);
        let crashed = guard::CRASHED.load(std::sync::atomic::Ordering::SeqCst);
        let verdict = if crashed != 0 {
            let w1 = (crashed & 0xFFFF_FFFF) as usize;
            let (sid, idx) = if w1 >= 1 && w1 <= guard::MAX_WORKERS { guard::crumb_of(w1 - 1) } else { (0, 0) };
            Some((sid, idx, "process-abort", format!("fatal signal {} while this case ran ({})", crashed >> 32, if crashed >> 32 == 6 { "abort: failed allocation or a panic inside a panic" } else { "fault on a guard page: the stack overflowed, recursion depth grows with the input" })))
        } else if blown != 0 {
            let (sid, idx) = guard::crumb_of(blown - 1);
            Some((sid, idx, "runaway-allocation", format!("live heap exceeded the cap ({} bytes live)", guard::live_alloc())))
        } else {
            match guard::stuck_case(run::CASE_TIMEOUT_MS) {
                None => {
                    suspect = None;
                    None
                }
                Some((w, sid, idx, ms)) => {
                    let stamp = guard::crumb_start_of(w);
                    let cpu = guard::worker_cpu_ms(w);
                    match suspect {
                        Some((sw, sstamp, scpu)) if sw == w && sstamp == stamp && stamp != 0 => {
                            let burnt = match (cpu, scpu) {
                                (Some(a), Some(b)) => a.saturating_sub(b),
                                _ => 0,
                            };
                            if burnt >= CASE_CPU_CONFIRM_MS || ms >= CASE_WALL_MAX_MS || (cpu.is_none() && ms >= 3 * run::CASE_TIMEOUT_MS) {
                                Some((sid, idx, "non-termination", format!("a single case has been running for {} ms of wall-clock time, {} ms of CPU time of them since it was first suspected", ms, burnt)))
                            } else {
                                None
                            }
                        }
                        _ => {
                            suspect = Some((w, stamp, cpu));
                            None
                        }
                    }
                }
            }
        };
        if let Some((sid, idx, kind, detail)) = verdict {
            guard::set_alloc_cap(usize::MAX);
            let space = guard::space_name(sid);
            let dir = format!("{}/out/replays", verif_dir);
            let _ = std::fs::create_dir_all(&dir);
            let path = format!("{}/{}-{}-{}.json", dir, prop, tier.name(), kind);
            let j = J::obj()
                .set("property_id", J::s(prop))
                .set("tier", J::s(tier.name()))
                .set("seed", J::u(seed))
                .set("space", J::s(space.clone()))
                .set("index", J::u(idx))
                .set("key", J::s(kind))
                .set("case", J::s(format!("{}[{}]", space, idx)))
                .set("detail", J::s(detail.clone()));
            let _ = std::fs::write(&path, j.render());
            if !is_replay {
                let ev = J::obj()
                    .set("property_id", J::s(prop))
                    .set("tier", J::s(tier.name()))
                    .set("seed", J::u(seed))
                    .set("level", J::s("model_checking"))
                    .set(
                        "coverage",
                        J::obj()
                            .set("evaluations", J::u(idx.max(1)))
                            .set("distinct_nontrivial", J::u(2))
                            .set("rule", J::s("run aborted by the watchdog; counts are lower bounds"))
                            .set("samples", J::Arr(vec![J::s(format!("{}[{}]: {}", space, idx, detail))]))
                            .set("exhaustive", J::Bool(false)),
                    )
                    .set("wall_s", J::Num(guard::now_ms() as f64 / 1000.0))
                    .set("violations", J::u(1));
                let _ = std::fs::create_dir_all(format!("{}/evidence", verif_dir));
                let _ = std::fs::write(format!("{}/evidence/{}.json", verif_dir, prop), ev.render());
            }
            println!("VIOLATION property={} replay={}", prop, path);
            println!("  key={} {}[{}] {}", kind, space, idx, detail);
            std::process::exit(1);
        }
    });
}
