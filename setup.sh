#!/usr/bin/env bash
# setup_cmd: offline build of the harness and its self-tests (index<->case bijections, JSON,
# reference encoder vs the suite's byte-exact vectors, reference decode(encode(x)) == x).
set -eu
HERE="$(cd "$(dirname "$0")" && pwd)"
export VERIF_DIR="$HERE"
export CARGO_NET_OFFLINE=true
mkdir -p "$HERE/out" "$HERE/evidence"
(cd "$HERE/mc" && cargo build --release --offline --target-dir "$HERE/out/target")
(cd "$HERE/mc" && cargo build --profile frames --offline --target-dir "$HERE/out/target")
(cd "$HERE/mc" && cargo test --release --offline --quiet --target-dir "$HERE/out/target")
"$HERE/out/target/release/rtcp-mc" selftest
